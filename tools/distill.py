"""Development-time tool: coverage distillation of the bounded universes (the fuzzing family's corpus minimisation).

For every universe the ranks are streamed in order through the code under test while sys.monitoring reports only
*new* coverage (a line of pymarkdown/ executed for the first time, a branch taken in a direction not seen before).
A document is kept iff it adds coverage.  Pass 1 runs contiguous shards with fresh coverage state in parallel;
pass 2 replays the kept documents of one universe in one process (rank order) and keeps those that still add
coverage.  The result (corpus/distilled_<mode>.json: {universe: [ranks]}) is a fixed stratum that the quick tiers
always evaluate in addition to their seeded sample, so that every line and branch direction the whole universe
reaches is exercised by at least one quick-tier document.

usage: python -m tools.distill parse|scan [universe,...]     (deterministic for a given tree; never run by a check)"""
import json
import os
import sys
import time

sys.path.insert(0, os.path.dirname(os.path.dirname(os.path.abspath(__file__))))

TOOL = 1  # sys.monitoring.COVERAGE_ID
SHARDS = 16


class NewCoverage:
    def __init__(self, branches=True):
        self.branches = branches
        self.new = 0
        self.br = {}
        self.lines = set()
        self.files = {}

    def _ours(self, code):
        fn = code.co_filename
        r = self.files.get(fn)
        if r is None:
            r = self.files[fn] = "/pymarkdown/" in fn and "/vendor/" not in fn
        return r

    def line_cb(self, code, line):
        # keyed by (file, line), not by code object: the application re-imports its plugin modules on every run, which
        # creates fresh code objects for the same source
        if self._ours(code):
            key = (code.co_filename, line)
            if key not in self.lines:
                self.lines.add(key)
                self.new += 1
        return sys.monitoring.DISABLE

    def branch_cb(self, code, src, dst):
        if not self._ours(code):
            return sys.monitoring.DISABLE
        key = (code.co_filename, code.co_firstlineno, src)
        d = self.br.get(key)
        if d is None:
            self.br[key] = dst
            self.new += 1
            return None
        if d == dst:
            return None
        if d != "both":
            self.br[key] = "both"
            self.new += 1
        return sys.monitoring.DISABLE

    def start(self):
        mon = sys.monitoring
        try:
            mon.use_tool_id(TOOL, "vp-distill")
        except ValueError:
            pass
        mon.register_callback(TOOL, mon.events.LINE, self.line_cb)
        if self.branches:
            mon.register_callback(TOOL, mon.events.BRANCH, self.branch_cb)
        mon.set_events(TOOL, mon.events.LINE | (mon.events.BRANCH if self.branches else 0))
        mon.restart_events()
        self.br.clear()
        self.lines.clear()
        self.new = 0

    def stop(self):
        sys.monitoring.set_events(TOOL, 0)


def exercise(mode, src):
    from vp import app, docprops, drive, fixlib

    if mode == "parse":
        toks, sig, _ = docprops.guarded_parse(src)
        if toks is not None:
            for fn in (drive.Parser.html, drive.Parser.markdown):
                try:
                    fn(toks)
                except Exception:
                    pass
    else:
        try:
            app.scan_text(src, pre_args=["-e", "md002,md006,pml100,pml101"])
        except Exception:
            pass
        try:
            fixlib.fix_once(src, [])
        except Exception:
            pass


BIG = 400000  # universes larger than this are streamed with LINE events only in pass 1 (near-native speed); the kept
#               documents of every universe go through passes 2 and 3 with branch directions as well


def shard(payload):
    mode, uname, lo, hi = payload
    from vp import engine

    u = engine.get_universe(uname)
    nc = NewCoverage(branches=u.size <= BIG)
    # warm-up outside measurement so that import-time and first-call lines are not attributed to the first document
    exercise(mode, "warm *up* [l](u)\n\n- a\n\n> b\n")
    nc.start()
    kept = []
    try:
        for r in range(lo, hi):
            before = nc.new
            try:
                exercise(mode, u.doc(r))
            except BaseException:
                pass
            if nc.new != before:
                kept.append(r)
    finally:
        nc.stop()
    return uname, lo, kept


def replay_subset(payload):
    mode, uname, ranks = payload
    from vp import engine

    u = engine.get_universe(uname)
    nc = NewCoverage()
    exercise(mode, "warm *up* [l](u)\n\n- a\n\n> b\n")
    nc.start()
    kept = []
    try:
        for r in ranks:
            before = nc.new
            try:
                exercise(mode, u.doc(r))
            except BaseException:
                pass
            if nc.new != before:
                kept.append(r)
    finally:
        nc.stop()
    return uname, kept


def main():
    mode = sys.argv[1]
    from vp import engine, pool, universes

    if len(sys.argv) > 2:
        names = sys.argv[2].split(",")
    elif mode == "scan":
        import importlib

        names = []
        for m in ("c07", "c06", "c08", "c09", "c10", "c11", "c12", "c16"):
            for un in importlib.import_module(f"vp.props.{m}").PLAN:
                if un not in names and engine.get_universe(un).size <= 100000:
                    names.append(un)
    else:
        names = universes.ALL
    out_path = os.path.join(os.path.dirname(os.path.dirname(os.path.abspath(__file__))), "corpus", f"distilled_{mode}.json")
    stage_path = out_path + ".stage"
    stage = json.load(open(stage_path)) if os.path.exists(stage_path) else {}
    t0 = time.time()
    # passes 1 and 2, one universe at a time (smallest first); intermediate results are kept so the run can be resumed
    for un in sorted(names, key=lambda n: engine.get_universe(n).size):
        key = un + "@" + engine.get_universe(un).checksum()
        if key in stage:
            continue
        n = engine.get_universe(un).size
        step = max(1, (n + SHARDS - 1) // SHARDS)
        jobs = [(mode, un, lo, min(lo + step, n)) for lo in range(0, n, step)]
        p1 = []
        for _, lo, kept in pool.run_jobs("tools.distill:shard", jobs, stall_s=14400):
            p1.extend(kept)
        _, p2 = replay_subset((mode, un, sorted(p1))) if len(p1) < 3000 else next(iter(pool.run_jobs("tools.distill:replay_subset", [(mode, un, sorted(p1))], stall_s=14400)))
        stage[key] = p2
        with open(stage_path, "w") as f:
            json.dump(stage, f, separators=(",", ":"))
        print(f"{un}: size={n} pass1={len(p1)} pass2={len(p2)} {time.time() - t0:.0f}s", flush=True)
    # The strata are kept PER UNIVERSE (pass 2).  A further global pass over all universes in a fixed order was tried and
    # dropped: the wraps of the suite's own documents (W1) reach nearly every line and branch, so every other universe's
    # stratum came out empty, which defeats the purpose (each universe's quick sample gets its own coverage-complete core).
    result = json.load(open(out_path)) if os.path.exists(out_path) else {}
    for key, ranks in stage.items():
        un, cs = key.rsplit("@", 1)
        try:
            if engine.get_universe(un).checksum() == cs:
                result[un] = ranks
        except Exception:
            pass
    with open(out_path, "w") as f:
        json.dump(result, f, separators=(",", ":"))
    print("strata:", {k: len(v) for k, v in result.items()}, f"{time.time() - t0:.0f}s")


if __name__ == "__main__":
    main()
