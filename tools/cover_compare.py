"""Development-time: compare the test suite's coverage of pymarkdown with what the universes reach.

usage: python -m tools.cover_compare SUITE.coverage UNIVERSES.json [UNIVERSES2.json ...] [--show file-substring]
Prints, per source file, the number of arcs (branches) the suite takes and the union of the universe runs does not,
and with --show the uncovered line ranges of matching files."""
import json
import sys


def main():
    args = [a for a in sys.argv[1:] if not a.startswith("--")]
    show = None
    if "--show" in sys.argv:
        show = sys.argv[sys.argv.index("--show") + 1]
        args = [a for a in args if a != show]
    import coverage

    data = coverage.CoverageData(basename=args[0])
    data.read()
    suite = {}
    for f in data.measured_files():
        if "/pymarkdown/" not in f:
            continue
        rel = f[f.index("/pymarkdown/") + 1 :]
        suite[rel] = {"lines": set(data.lines(f) or []), "arcs": set(map(tuple, data.arcs(f) or []))}
    uni = {}
    for p in args[1:]:
        for rel, v in json.load(open(p)).items():
            u = uni.setdefault(rel, {"lines": set(), "arcs": set()})
            u["lines"].update(v["lines"])
            u["arcs"].update(map(tuple, v["arcs"]))
    rows = []
    tot_s = tot_miss = 0
    for rel, sv in sorted(suite.items()):
        uv = uni.get(rel, {"lines": set(), "arcs": set()})
        miss_arcs = sv["arcs"] - uv["arcs"]
        miss_lines = sv["lines"] - uv["lines"]
        tot_s += len(sv["arcs"])
        tot_miss += len(miss_arcs)
        rows.append((len(miss_arcs), len(sv["arcs"]), len(miss_lines), len(sv["lines"]), rel))
        if show and show in rel:
            print(rel, "lines the suite reaches and the universes do not:", sorted(miss_lines))
    rows.sort(reverse=True)
    print(f"suite arcs {tot_s}, not reached by universes {tot_miss} ({100.0 * tot_miss / max(tot_s, 1):.1f}%)")
    for ma, sa, ml, sl, rel in rows[: int(__import__("os").environ.get("ROWS", "60"))]:
        print(f"{ma:5d}/{sa:5d} arcs  {ml:4d}/{sl:4d} lines  {rel}")


if __name__ == "__main__":
    main()
