#!/bin/bash
# development aid (session 3): lexical matrices L2-L5 for the document properties, then coverage distillation
while ! grep -q CHAINB-DONE /tmp/chainB.log 2>/dev/null; do sleep 30; done
cd /verif
/venv/bin/python -m tools.triage C01,C02,C03,C04,C05 L2,L3,L4,L5,H5
echo CHAINC-TRIAGE-DONE
/venv/bin/python -m tools.distill parse
echo CHAINC-DONE
# appended while waiting: rule-trigger universe Q2 and the extension matrix X3 for the scan-level properties / C20
/venv/bin/python -m tools.triage_engine C06 Q2
/venv/bin/python -m tools.triage_engine C07 Q2
/venv/bin/python -m tools.triage_engine C08 Q2
/venv/bin/python -m tools.triage_engine C09 Q2
/venv/bin/python -m tools.triage_engine C10 Q2/3
/venv/bin/python -m tools.triage_engine C11 Q2
/venv/bin/python -m tools.triage_engine C12 Q2/9
/venv/bin/python -m tools.triage_engine C20 X3/9
echo CHAINC2-DONE
/venv/bin/python -m tools.triage C01,C02,C03,C04,C05 P3
/venv/bin/python -m tools.triage_engine C07 P3
/venv/bin/python -m tools.triage_engine C08 P3
/venv/bin/python -m tools.triage_engine C09 P3
/venv/bin/python -m tools.triage_engine C10 P3/5
/venv/bin/python -m tools.triage_engine C11 P3/2
/venv/bin/python -m tools.triage_engine C12 P3/17
/venv/bin/python -m tools.triage_engine C16
echo CHAINC3-DONE
/venv/bin/python -m tools.triage_engine C06
echo CHAINC4-DONE
# after the failure-line parser learnt negative columns (MD032 reports 1:-3 on a few B2 documents)
/venv/bin/python -m tools.triage_engine C07
/venv/bin/python -m tools.triage_engine C08 B2/53
/venv/bin/python -m tools.triage_engine C09 B2/53
/venv/bin/python -m tools.triage_engine C10 B2/53
/venv/bin/python -m tools.triage_engine C11 B2/53
/venv/bin/python -m tools.triage_engine C12 B2/211
/venv/bin/python -m tools.distill scan
echo CHAINC5-DONE
