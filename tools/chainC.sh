#!/bin/bash
# development aid (session 3): lexical matrices L2-L5 for the document properties, then coverage distillation
while ! grep -q CHAINB-DONE /tmp/chainB.log 2>/dev/null; do sleep 30; done
cd /verif
/venv/bin/python -m tools.triage C01,C02,C03,C04,C05 L2,L3,L4,L5
echo CHAINC-TRIAGE-DONE
/venv/bin/python -m tools.distill parse
echo CHAINC-DONE
