#!/bin/bash
# development aid: third batch, after chain2 has printed its end marker
while ! grep -q CHAIN2-DONE /tmp/triage_engine2.log 2>/dev/null; do sleep 30; done
cd /verif
/venv/bin/python -m tools.triage_engine C20
/venv/bin/python -m tools.triage_engine C12
echo CHAIN3-DONE
