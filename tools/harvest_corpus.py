"""Development-time tool: snapshot the documents the repository's own test-suite uses.

Writes corpus/suite_docs.jsonl (one {"src":..., "origin":...} per line, de-duplicated, sorted by
(origin kind, text) so ranks are stable).  Run once; the snapshot is committed."""
import ast, json, os, sys, hashlib

REPO = os.environ.get("VERIF_REPO", "/repo")
out = os.path.join(os.path.dirname(os.path.dirname(os.path.abspath(__file__))), "corpus", "suite_docs.jsonl")
docs = {}
for root, _, files in os.walk(os.path.join(REPO, "test")):
    for fn in sorted(files):
        p = os.path.join(root, fn)
        rel = os.path.relpath(p, REPO)
        if fn.endswith(".py"):
            try:
                tree = ast.parse(open(p, encoding="utf-8").read())
            except Exception:
                continue
            for node in ast.walk(tree):
                if isinstance(node, ast.Assign) and len(node.targets) == 1 and isinstance(node.targets[0], ast.Name):
                    nm = node.targets[0].id
                    if nm in ("source_markdown", "original_markdown", "source_file_contents", "source_contents") and isinstance(node.value, ast.Constant) and isinstance(node.value.value, str):
                        s = node.value.value
                        if 0 < len(s) <= 1500:
                            docs.setdefault(s, "py:" + rel)
        elif fn.endswith(".md") and "resources" in rel:
            try:
                s = open(p, encoding="utf-8", newline="").read()
            except Exception:
                continue
            if 0 < len(s) <= 1500 and "\r" not in s:
                docs.setdefault(s, "md:" + rel)
items = sorted(docs.items(), key=lambda kv: (kv[1].split(":")[0], kv[0]))
with open(out, "w", encoding="utf-8") as f:
    for s, o in items:
        f.write(json.dumps({"src": s, "origin": o}, ensure_ascii=True) + "\n")
print(len(items), "documents", os.path.getsize(out), "bytes")
