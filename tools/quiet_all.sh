#!/bin/bash
# Development tool: run every registered quick check on the unchanged tree with the given seeds; evidence goes to a scratch
# directory (the committed evidence is written by the final runs).  usage: tools/quiet_all.sh "1 2 3" [props...]
SEEDS=${1:-1}; shift
PROPS=${@:-C01 C02 C03 C04 C05 C06 C07 C08 C09 C10 C11 C12 C13 C14 C15 C16 C17 C18 C19 C20}
cd /verif
for s in $SEEDS; do
  for p in $PROPS; do
    t0=$(date +%s)
    if [ "$s" = "1" ]; then
      # seed 1 is the registered default: this run writes the committed evidence file
      VERIF_SEED=$s /venv/bin/python -m vp.check $p --tier quick > /tmp/quiet_${p}_$s.log 2>&1
    else
      VERIF_SEED=$s VERIF_EVIDENCE_DIR=/tmp/quiet_ev_$s VERIF_OUT_DIR=/tmp/quiet_out_$s /venv/bin/python -m vp.check $p --tier quick > /tmp/quiet_${p}_$s.log 2>&1
    fi
    rc=$?
    echo "seed=$s $p exit=$rc $(( $(date +%s) - t0 ))s $(grep -c '^VIOLATION' /tmp/quiet_${p}_$s.log) violations $(grep -c '^KNOWN-FINDING' /tmp/quiet_${p}_$s.log) known"
  done
done
