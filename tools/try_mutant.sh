#!/bin/bash
# usage: tools/try_mutant.sh <seeded-dir-name> <property> [tier]   -- applies the patch to /repo, runs the check, reverts
set -u
M=$1; P=$2; T=${3:-quick}
cd /verif
git -C /repo apply /verif/seeded/$M/patch.diff || { echo "PATCH FAILED"; exit 9; }
VERIF_SEED=${VERIF_SEED:-1} /venv/bin/python -m vp.check $P --tier $T > /tmp/try_${M}_${P}.log 2>&1
rc=$?
git -C /repo checkout -- .
echo "== $M vs $P ($T): exit=$rc"; grep -E "VIOLATION|HARNESS|^\[" /tmp/try_${M}_${P}.log | head -8
git checkout -- evidence/$P.json 2>/dev/null
