#!/bin/bash
# development aid: fourth batch (repetition universe T4), after chain3
while ! grep -q CHAIN3-DONE /tmp/triage_engine3.log 2>/dev/null; do sleep 30; done
cd /verif
/venv/bin/python -m tools.triage_engine C06 T4/3
/venv/bin/python -m tools.triage_engine C07 T4/3
/venv/bin/python -m tools.triage_engine C08 T4/5
/venv/bin/python -m tools.triage_engine C09 T4/5
/venv/bin/python -m tools.triage_engine C11 T4/7
echo CHAIN4-DONE
