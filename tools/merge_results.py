"""Development tool: merge the tables written by tools/run_seeded_par.py --write into seeded/RESULTS.md and print the
per-property summary used in DESIGN.md section 10.
usage: python -m tools.merge_results <generators-only tables...> --reg <tables run with the replay tier on...>"""
import collections
import json
import os
import re
import sys

V = os.path.dirname(os.path.dirname(os.path.abspath(__file__)))


def rows(path):
    out = {}
    for line in open(path, encoding="utf-8"):
        m = re.match(r"^\| (C\S+) \| (C\d\d) \| (.*?) \| ([^|]*?) \| (.*?) \|$", line.rstrip("\n"))
        if m:
            out[m.group(1)] = (m.group(2), m.group(3), m.group(4).strip(), m.group(5))
    return out


def main():
    args = sys.argv[1:]
    reg = []
    if "--reg" in args:
        i = args.index("--reg")
        reg = args[i + 1 :]
        args = args[:i]
    gen = {}
    for p in args:
        gen.update(rows(p))
    regr = {}
    for p in reg:
        regr.update(rows(p))
    names = sorted(d for d in os.listdir(os.path.join(V, "seeded")) if os.path.isfile(os.path.join(V, "seeded", d, "patch.diff")))
    summary = collections.defaultdict(lambda: collections.Counter())
    lines = ["Results of the quick checks against the seeded breaking changes (tools/run_seeded_par.py; every change applied to its own scratch",
             "worktree of /repo HEAD, VERIF_SEED=1).  `generators` = replay tier switched off (VERIF_SKIP_REGRESSIONS=1); `with replay tier` is",
             "given where the generators miss in the quick tier.", "",
             "| seeded change | property | needs | generators | with replay tier | first signatures |", "|---|---|---|---|---|---|"]
    for n in names:
        prop = n.split("-")[0]
        meta = {}
        try:
            meta = json.load(open(os.path.join(V, "seeded", n, "meta.json")))
        except Exception:
            pass
        g = gen.get(n)
        r = regr.get(n)
        needs = (g or r or (prop, str(meta.get("needs_to_manifest") or meta.get("title") or "")[:160], "", ""))[1]
        gres = g[2] if g else "not run this session"
        rres = r[2] if r else ""
        note = ""
        if meta.get("obsolete_since"):
            note = f" (obsolete since {meta['obsolete_since']['commit']}: its own demonstration passes on the repaired tree)"
        sig = (g[3] if g and g[3] else (r[3] if r else ""))[:140]
        lines.append(f"| {n} | {prop} | {needs[:150]} | {gres}{note} | {rres} | {sig} |")
        key = "caught by generators" if gres == "CAUGHT" else ("caught by replay tier" if rres == "CAUGHT" else ("obsolete" if meta.get("obsolete_since") or "PATCH" in gres else ("not run" if not g else "missed")))
        summary[prop][key] += 1
    with open(os.path.join(V, "seeded", "RESULTS.md"), "w", encoding="utf-8") as f:
        f.write("\n".join(lines) + "\n")
    print("| property | changes | caught by generators | only by replay tier | missed in quick tier | obsolete / not run |")
    print("|---|---|---|---|---|---|")
    tot = collections.Counter()
    for prop in sorted(summary):
        c = summary[prop]
        n = sum(c.values())
        print(f"| {prop} | {n} | {c['caught by generators']} | {c['caught by replay tier']} | {c['missed']} | {c['obsolete'] + c['not run']} |")
        tot.update(c)
    print(f"| all | {sum(tot.values())} | {tot['caught by generators']} | {tot['caught by replay tier']} | {tot['missed']} | {tot['obsolete'] + tot['not run']} |")


if __name__ == "__main__":
    main()
