"""Development-time tool: fully enumerate universes for the document-level properties and
record the exact failing ranks per (property, universe, signature) in known_findings_data/.
Never run by a check.   usage: python -m tools.triage C01,C02,C03,C04,C05 B2,B3,...  [ext-profile]"""
import collections
import gzip
import json
import os
import sys
import time

from vp import VERIF_DIR, docprops, pool, universes  # noqa: F401  (import before fork)
from vp.findings import delta_encode

DATA = os.path.join(VERIF_DIR, "known_findings_data")


def load(prop):
    p = os.path.join(DATA, f"{prop}.json.gz")
    if os.path.exists(p):
        with gzip.open(p, "rt", encoding="utf-8") as f:
            return json.load(f)
    return {"property": prop, "universes": {}}


def save(prop, data):
    os.makedirs(DATA, exist_ok=True)
    p = os.path.join(DATA, f"{prop}.json.gz")
    with gzip.open(p + ".tmp", "wt", encoding="utf-8") as f:
        json.dump(data, f, separators=(",", ":"))
    os.replace(p + ".tmp", p)


def main():
    props = sys.argv[1].split(",")
    unis = sys.argv[2].split(",")
    for uname in unis:
        u = universes.get(uname)
        t0 = time.time()
        jobs = [(uname, list(range(i, min(i + 1000, u.size))), props, universes.extensions_for(uname)) for i in range(0, u.size, 1000)]
        fails = {p: collections.defaultdict(list) for p in props}
        stats = {p: collections.Counter() for p in props}
        done = 0
        for res in pool.run_jobs("vp.docprops:eval_ranks", jobs, stall_s=3600):
            done += res["n"]
            for p in props:
                d = res["per_prop"][p]
                stats[p]["pass"] += d["pass"]
                stats[p]["skip"] += d["skip"]
                stats[p]["nt"] += d["nt"]
                for r, s in d["fail"]:
                    fails[p][s].append(r)
            if done % 100000 < 1000:
                print(f"  {uname} {done}/{u.size} {time.time()-t0:.0f}s", flush=True)
        for p in props:
            data = load(p)
            sigs = {}
            examples = {}
            grouped = collections.defaultdict(list)
            for s, ranks in fails[p].items():
                coarse, _, det = s.partition("#")
                grouped[coarse] += [(r, det) for r in ranks]
            for s, pairs in grouped.items():
                pairs.sort()
                ranks = [r for r, _ in pairs]
                sigs[s] = {"r": delta_encode(ranks), "d": [d for _, d in pairs]}
                ex = sorted((u.doc(r) for r in ranks[:2000:max(1, min(len(ranks), 2000) // 40)]), key=len)[:3]
                examples[s] = ex
            data["universes"][uname] = {
                "checksum": u.checksum(),
                "size": u.size,
                "stats": dict(stats[p]),
                "sigs": sigs,
                "examples": examples,
            }
            save(p, data)
            print(f"{p} {uname}: size={u.size} fail={sum(len(v) for v in fails[p].values())} sigs={len(sigs)} {dict(stats[p])}", flush=True)
        print(f"== {uname} done in {time.time()-t0:.0f}s", flush=True)


if __name__ == "__main__":
    main()
