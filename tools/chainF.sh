#!/bin/bash
# development aid (session 3): E1/211, M3, L6 for the scan/fix properties, C10 after its new read-only case, then distillation
while ! grep -q CHAIND-DONE /tmp/chainD.log 2>/dev/null; do sleep 30; done
cd /verif
/venv/bin/python -m tools.triage C01,C02,C03,C04,C05 M3,L6
/venv/bin/python -m tools.triage_engine C07 E1/211,M3/3,L6
/venv/bin/python -m tools.triage_engine C08 E1/211,M3/3,L6
/venv/bin/python -m tools.triage_engine C09 E1/211,M3/3,L6
/venv/bin/python -m tools.triage_engine C11 E1/211,L6/3
/venv/bin/python -m tools.triage_engine C12 M3/97,L6/17
/venv/bin/python -m tools.triage_engine C06
/venv/bin/python -m tools.triage_engine C10
/venv/bin/python -m tools.triage C01,C02,C03,C04,C05 G2
/venv/bin/python -m tools.triage_engine C07 G2
/venv/bin/python -m tools.triage_engine C08 G2,Z1#cfg,Q2#cfg,T4/5#cfg,L6#cfg,M3/3#cfg,N1/11#cfg,W1/2#cfg,B3/89#cfg,R3#cfg,H4/3#cfg,P3#cfg,G2#cfg
/venv/bin/python -m tools.triage_engine C09 G2,Z1#cfg,Q2#cfg,T4/5#cfg,L6#cfg,M3/3#cfg,N1/11#cfg,W1/2#cfg,B3/89#cfg,R3#cfg,H4/3#cfg,P3#cfg,G2#cfg
/venv/bin/python -m tools.triage_engine C11 G2/3
/venv/bin/python -m tools.triage C01,C02,C03,C04,C05 H6
/venv/bin/python -m tools.triage_engine C07 H6
/venv/bin/python -m tools.triage_engine C08 H6
/venv/bin/python -m tools.triage_engine C09 H6
/venv/bin/python -m tools.triage_engine C07 U2
/venv/bin/python -m tools.triage_engine C12
/venv/bin/python -m tools.triage C01,C02,C03,C04,C05 L7
/venv/bin/python -m tools.triage_engine C07 L7
/venv/bin/python -m tools.triage_engine C08 L7
/venv/bin/python -m tools.triage_engine C09 L7
/venv/bin/python -m tools.triage_engine C11 L7/5
/venv/bin/python -m tools.triage_engine C06 L7/3
echo CHAINF-ALLTRIAGE-DONE
/venv/bin/python -m tools.gen_findings
echo CHAINF-DONE
