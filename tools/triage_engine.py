"""Development-time tool: fully enumerate a scan-level property's plan universes with its evaluator and
record the exact failing ranks per signature in known_findings_data/<prop>.json.gz.
usage: python -m tools.triage_engine C07 [universe,...]"""
import collections, importlib, sys, time
from vp import VERIF_DIR, pool, engine, docprops, app, fixlib  # noqa (import before fork)
from vp.findings import delta_encode
from tools.triage import load, save

def main():
    prop = sys.argv[1]
    mod = importlib.import_module(f"vp.props.{prop.lower()}")
    unis = sys.argv[2].split(",") if len(sys.argv) > 2 else list(mod.PLAN) + list(getattr(mod, "PLAN_CFG", {}))
    opts = getattr(mod, "TRIAGE_OPTS", None)
    chunk = getattr(mod, "TRIAGE_CHUNK", 50)
    for uname in unis:
        u = engine.get_universe(uname)
        t0 = time.time()
        evaluator = mod.EVALUATOR
        for tag, path in getattr(mod, "EVALUATORS", {}).items():
            if uname.endswith(tag):
                evaluator = path
        jobs = [(evaluator, uname, list(range(i, min(i + chunk, u.size))), opts) for i in range(0, u.size, chunk)]
        fails = collections.defaultdict(list); stats = collections.Counter(); done = 0
        for res in pool.run_jobs("vp.engine:eval_ranks", jobs, stall_s=7200):
            done += res["n"]; stats["pass"] += res["pass"]; stats["skip"] += res["skip"]; stats["nt"] += res["nt"]
            for r, s in res["fail"]:
                fails[s].append(r)
            if done % 5000 < chunk:
                print(f"  {uname} {done}/{u.size} {time.time()-t0:.0f}s", flush=True)
        data = load(prop)
        sigs = {}; examples = {}
        grouped = collections.defaultdict(list)
        for s, ranks in fails.items():
            coarse, _, det = s.partition("#")
            grouped[coarse] += [(r, det) for r in ranks]
        for s, pairs in grouped.items():
            pairs.sort(); ranks = [r for r, _ in pairs]
            sigs[s] = {"r": delta_encode(ranks), "d": [d for _, d in pairs]}
            examples[s] = sorted((u.doc(r) for r in ranks[:400:max(1, min(len(ranks), 400) // 20)]), key=len)[:3]
        data["universes"][uname] = {"checksum": u.checksum(), "size": u.size, "stats": dict(stats), "sigs": sigs, "examples": examples}
        save(prop, data)
        print(f"{prop} {uname}: size={u.size} fail={sum(len(v) for v in fails.values())} sigs={len(fails)} {dict(stats)} {time.time()-t0:.0f}s", flush=True)

if __name__ == "__main__":
    main()
