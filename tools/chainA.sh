#!/bin/bash
# development aid (session 3): re-triage every (property, universe) whose rank data was missing or stale
cd /verif
/venv/bin/python -m tools.triage_engine C07 T4/3
/venv/bin/python -m tools.triage_engine C09 P2,R2/3,R3,K7,T4/5
/venv/bin/python -m tools.triage_engine C08 P2,R2/3,R3,K7,T4/5
/venv/bin/python -m tools.triage_engine C10 P2,R2/3
/venv/bin/python -m tools.triage_engine C11 P2,R2/3,R3,T4/7
/venv/bin/python -m tools.triage_engine C12 T4/37
/venv/bin/python -m tools.triage_engine C06
/venv/bin/python -m tools.triage_engine C16
echo CHAINA-DONE
