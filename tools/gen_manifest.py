"""Regenerate MANIFEST.json from the table below (kept in one place so it stays valid)."""
import json, os, sys
V = os.path.dirname(os.path.dirname(os.path.abspath(__file__)))
PY = "/venv/bin/python"
BASE = json.load(open("/root/.vp/BASELINE.json"))["cmd"] if os.path.exists("/root/.vp/BASELINE.json") else "cd /repo && /venv/bin/python -m pytest -ra -q -p no:cacheprovider --timeout=900 --continue-on-collection-errors --junitxml=<file>"

CHECKS = {
 "C01": ("exploration", "docprops", "bounded-exhaustive universe enumeration (coverage-distilled stratum + seeded sample in the quick tier) + scaling families + Hypothesis structured documents, oracle: termination within a counted work budget and a CPU-time backstop",
   "Generated-input search: every rank (thorough) or a seeded sample (quick) of finite document universes built from the Markdown-significant vocabulary, specification limits and single-edit neighbours of the suite's own documents is parsed under a deterministic work counter; failures are matched against exact committed rank sets so only new failing inputs alarm.",
   "Holds only on the explored universes/sizes; non-termination observable only as exceeding the work budget; sys.monitoring call counts trusted."),
 "C02": ("exploration", "docprops", "bounded-exhaustive universe enumeration, round-trip oracle (regenerated Markdown == source)",
   "Round-trip oracle over the same universes: TransformToMarkdown(tokens) must equal the source character for character; known failing inputs are matched by exact rank, signature and hash of the wrong output.",
   "Documents that do not parse are skipped (C01). Explored universes only."),
 "C03": ("exploration", "docprops", "differential testing against an independent CommonMark implementation (vendored markdown-it-py) over enumerated universes",
   "Differential oracle: normalised HTML of PyMarkdown vs. markdown-it-py (validated on all 652 CommonMark 0.31.2 examples by setup) over the universes; disagreements present on the pinned tree are matched by exact rank and output hash (adjudicated ones are findings, the others rank-exact domain exclusions).",
   "Trusted base: markdown-it-py 4.0.0 + html.parser normalisation; constructs where 0.29/0.31 differ or where the oracle deviates from the spec text are excluded by predicate and counted."),
 "C04": ("exploration", "docprops", "bounded-exhaustive universe enumeration, oracle: independent push-down automaton over the token stream",
   "Invariant oracle: an independent stack automaton written from the statement replays every token list (identity of start/end pairing, class discipline, nothing left open).",
   "'li' treated as scope-less marker; explored universes only."),
 "C05": ("exploration", "docprops", "bounded-exhaustive universe enumeration, oracle: source text at (line, column) is the element's opening text",
   "Validity predicate over every positioned token: range, block order, and anchor text per token kind; the classes and the exact (line, column) of every failing token form the document's signature, so any further wrong position in an already-failing document is still reported.",
   "Anchors only for token kinds the statement names; tabs accept raw or expanded column."),
 "C06": ("exploration", "scanprops", "generated documents x documented rule configurations, oracle: independent two-sided reference (MUST / MUST-NOT line sets) of each rule's documented trigger over an independent parser's block and inline view",
   "Differential against reference implementations of 41 of the 46 rules (50 documented configuration variants) written from the rule documentation (MUST / MUST-NOT line sets, silent cases not judged), evaluated on the block structure reported by the independent parser, only on documents where C03 holds.",
   "References encode a conservative reading of informal documentation; rules without a crisp documented trigger are not judged."),
 "C07": ("exploration", "scanprops", "generated documents x rule configurations through main(), oracle: report validity predicate + determinism",
   "Every sampled document is scanned twice under default / all-rules / two single-rule configurations through PyMarkdownLint.main; plugin failures, out-of-range, duplicate, unsorted or non-deterministic reports fail.",
   "Sub-lattices of the universes; single-rule configurations sampled by source hash."),
 "C08": ("exploration", "scanprops", "metamorphic: fingerprint(render(d)) == fingerprint(render(fix(d))) through an independent renderer",
   "Fix is run through main() under the default set, single fix-capable rules and pairs, and (second pass) under documented non-default configuration values of one fix-capable rule; a content fingerprint of the independent renderer's HTML, reduced only by the freedoms documented for the rules that reported, must be unchanged.",
   "Trusted base markdown-it-py; freedoms listed in oracles/fingerprint.py; precondition C03 on the original."),
 "C09": ("exploration", "scanprops", "metamorphic: fix(fix(d)) == fix(d), second run silent, no fixable failure left",
   "Idempotence and completeness of fix under default / single / pair configurations chosen among the rules that fire on the document, and (second pass) under documented non-default configuration values of one fix-capable rule.",
   "Fix runs that end in an application error are C15's; pairs sampled by hash."),
 "C10": ("exploration", "scanprops", "file-system snapshot oracle over generated file sets, both return-code schemes",
   "Hash snapshots of a private working directory and TMPDIR before/after fix, scan, list and stdin runs (also with input that cannot be encoded) over 3-file sets: changed <=> announced <=> exit code, untouched when nothing fixable, nothing created or left.",
   "File sets are 3 files with hash-chosen companions."),
 "C11": ("exploration", "scanprops", "metamorphic: pragma insertion at generated line boundaries, oracle: shifted tokens / shifted failures minus exactly the named (line, rule)",
   "A pragma line (both prefixes, ids in any case / aliases, next-line and num-lines, stacked pairs, malformed forms) is inserted into generated documents; token stream and failures must equal the shifted originals minus exactly what is named.",
   "Pragma lines kept short and clean so no line rule fires on them; insertion only before existing lines."),
 "C12": ("exploration", "scanprops", "algebraic law: failures(S) == multiset-union of failures({r}), all 46 rules alone + default/all/default-minus-k",
   "Every rule is scanned alone on each sampled document and the union law is checked for the default set, all rules and default minus hashed rules, on a pragma-bearing variant and on a front-matter variant with the extension enabled.",
   "md999 excluded; documents whose scan crashes are C07's."),
 "C13": ("exploration", "histories", "history generation: every adjacency of a document pool in one invocation + Hypothesis rule-based state machine on one API object, oracle: per-file result equals the alone result",
   "Sequences A B1 A B2 ... over a pool of rule resource documents and state probes (scan and fix), and a stateful Hypothesis machine over a long-lived PyMarkdownApi, compared with fresh single-file results.",
   "Pool = suite resource documents + probes; thorough covers every ordered pair."),
 "C14": ("exploration", "histories", "Hypothesis-generated runs with a recording plugin, oracle: life-cycle model (S T* L* C per file / per fix pass) + observer neutrality",
   "A recorder plugin loaded with --add-plugin logs every callback; the log must equal the model built from the parser's own token stream and the file's lines, in every variant (callbacks overridden, fix level, enabled/disabled, with/without default rules).",
   "Fix-mode intermediate contents not observable: with other rules enabled only the first pass is compared with the parser."),
 "C15": ("fault_enumeration", "faults", "fault enumeration: exception at every callback invocation / parser call, bad files at every position, process kill and KeyboardInterrupt at every write-back step",
   "Every invocation index of every callback kind of the fault-free run, every parser call, crash/undecodable documents at every position, and every step of the (patched, chunked) write-back in a child process are faulted; exit status, naming, isolation under --continue-on-error, file integrity and leftovers are judged.",
   "Crash points are those of the Python-level write sequence; starting_new_file faults in fix mode cannot be attributed to a file."),
 "C16": ("exploration", "scanprops", "differential between entry points (file, stdin, scan_string, scan_path, fix vs fix_string) + metamorphic over diagnostics options",
   "The same document (in LF / CR-LF / no-final-newline / non-ASCII / Unicode-line-separator variants) must give the same failures and fixed text through every entry point, and diagnostics options must not change results.",
   "API preconditions respected; real subprocess stdin only for CR-LF."),
 "C17": ("exploration", "shell-models", "exhaustive enumeration of configuration layer combinations against a precedence model",
   "All 405 layer x command-line combinations per rule naming, and every documented configuration item with valid / invalid values under lenient and strict modes in every layer, compared with a reference model of the documented precedence.",
   "Item types/defaults read from the documentation tables; consistent naming within a configuration."),
 "C18": ("exploration", "shell-models", "scenario table x enumerated file sets against an exit-code model, both schemes and every way of selecting them",
   "Direct scenarios and all ordered file sets (size <= 3) over ten member kinds x scan/fix/list x continue-on-error x scheme x selection are run; the exit status must equal the documented table applied to the model's outcome category.",
   "Outcomes the user guide does not define (plugins list without match etc.) are not judged."),
 "C19": ("exploration", "shell-models", "Hypothesis-generated directory trees and argument lists against a reference model of file discovery",
   "Trees, argument lists (files, directories, spellings, globs, missing, duplicates; every permutation), --recurse and --alternate-extensions are generated; list-files, scan, fix and the API must select exactly the model's set, once each, sorted, with the documented error outcomes.",
   "Each-file-once judged on real paths; lowercase alternate extensions only."),
 "C20": ("exploration", "docprops", "metamorphic over extension subsets + differential vs CommonMark with all extensions off + front-matter shift law",
   "For hashed subsets S of the six extensions, parse_S(d) must equal parse_{S restricted to triggered extensions}(d); with everything off the HTML must match the independent CommonMark implementation even on extension syntax; a valid front-matter block must only shift the remaining parse.",
   "Trigger predicates are syntactic over-approximations; YAML validity by PyYAML as documented."),
}
NOT_YET = {f"C{i:02d}" for i in range(1, 21)} - set(CHECKS)

def main():
    checks = []
    for pid, (cat, engine, tech, text, note) in sorted(CHECKS.items()):
        checks.append({
            "property_id": pid,
            "quick_cmd": f"{PY} -m vp.check {pid} --tier quick",
            "thorough_cmd": f"{PY} -m vp.check {pid} --tier thorough",
            "evidence_file": f"evidence/{pid}.json",
            "replay_cmd_template": f"{PY} -m vp.check {pid} --replay {{path}}",
            "engine": engine,
            "level_claimed": {"category": cat, "text": text, "design_ref": f"DESIGN.md section 4 ({pid})"},
            "level_note": note,
            "technique": tech,
        })
    man = {
        "version": 1,
        "setup_cmd": f"{PY} -m pip install --no-index --find-links /opt/veriftools/wheels hypothesis >/dev/null 2>&1; {PY} -m vp.setup",
        "hooks": {"guard": "PYMARKDOWN_VERIF", "enable": "no source hooks are needed; checks import /repo's working tree directly (PYMARKDOWN_VERIF=1 is exported but nothing in /repo reads it)", "baseline_off_cmd": BASE, "source_commits": [], "add_only": True},
        "engines": [
            {"name": "docprops", "path": "vp/docprops.py", "serves_properties": ["C01", "C02", "C03", "C04", "C05", "C20"], "kind_free_text": "bounded-exhaustive document universes + Hypothesis strategies, per-document oracles, exact-rank known-finding matching"},
            {"name": "scanprops", "path": "vp/engine.py", "serves_properties": ["C06", "C07", "C08", "C09", "C10", "C11", "C12", "C16"], "kind_free_text": "documents x configurations through PyMarkdownLint.main / PyMarkdownApi in private sandboxes"},
            {"name": "shell-models", "path": "vp/models", "serves_properties": ["C17", "C18", "C19"], "kind_free_text": "reference models of precedence, exit codes and file discovery compared with the real CLI"},
            {"name": "histories", "path": "vp/props", "serves_properties": ["C13", "C14", "C15"], "kind_free_text": "Hypothesis stateful machines / fault enumeration with a recorder plugin"},
        ],
        "checks": checks,
        "not_applicable": [{"property_id": p, "reason": "check not built yet in this revision (work in progress; the technique applies)"} for p in sorted(NOT_YET)],
        "notes": "All checks: python -m vp.check <id>; VERIF_SEED / VERIF_TIER honoured; exit 2 = harness error (no verdict).",
    }
    json.dump(man, open(os.path.join(V, "MANIFEST.json"), "w"), indent=1)
    print("wrote MANIFEST.json with", len(checks), "checks")

main()
