"""Regenerate MANIFEST.json from the table below (kept in one place so it stays valid)."""
import json, os, sys
V = os.path.dirname(os.path.dirname(os.path.abspath(__file__)))
PY = "/venv/bin/python"
BASE = json.load(open("/root/.vp/BASELINE.json"))["cmd"] if os.path.exists("/root/.vp/BASELINE.json") else "cd /repo && /venv/bin/python -m pytest -ra -q -p no:cacheprovider --timeout=900 --continue-on-collection-errors --junitxml=<file>"

CHECKS = {
 "C01": ("exploration", "docprops", "bounded-exhaustive universe enumeration + scaling families, oracle: termination within a counted work budget",
   "Generated-input search: every rank (thorough) or a seeded sample (quick) of finite document universes built from the Markdown-significant vocabulary and from single-edit neighbours of the suite's own documents is parsed under a deterministic work counter; failures are matched against exact committed rank sets so only new failing inputs alarm.",
   "Holds only on the explored universes/sizes; non-termination observable only as exceeding the work budget; sys.monitoring call counts trusted."),
 "C02": ("exploration", "docprops", "bounded-exhaustive universe enumeration, round-trip oracle (regenerated Markdown == source)",
   "Round-trip oracle over the same universes: TransformToMarkdown(tokens) must equal the source character for character; known failing inputs are matched by exact rank and signature.",
   "Documents that do not parse are skipped (C01). Explored universes only."),
 "C03": ("exploration", "docprops", "differential testing against an independent CommonMark implementation (vendored markdown-it-py) over enumerated universes",
   "Differential oracle: normalised HTML of PyMarkdown vs. markdown-it-py (validated on all 652 CommonMark 0.31.2 examples by setup) over the universes; disagreements present on the pinned tree are matched by exact rank (adjudicated ones are findings, the others domain exclusions).",
   "Trusted base: markdown-it-py 4.0.0 + html.parser normalisation; constructs where 0.29/0.31 differ or where the oracle deviates from the spec text are excluded by predicate and counted."),
 "C04": ("exploration", "docprops", "bounded-exhaustive universe enumeration, oracle: independent push-down automaton over the token stream",
   "Invariant oracle: an independent stack automaton written from the statement replays every token list (identity of start/end pairing, class discipline, nothing left open).",
   "'li' treated as scope-less marker; explored universes only."),
 "C05": ("exploration", "docprops", "bounded-exhaustive universe enumeration, oracle: source text at (line, column) is the element's opening text",
   "Validity predicate over every positioned token: range, block order, and anchor text per token kind; all failure classes of a document form its signature so additional wrong positions in an already-failing document are still reported.",
   "Anchors only for token kinds the statement names; tabs accept raw or expanded column."),
 "C07": ("exploration", "scanprops", "generated documents x rule configurations through main(), oracle: report validity predicate + determinism",
   "Every sampled document is scanned twice under default / all-rules / two single-rule configurations through PyMarkdownLint.main; plugin failures, out-of-range, duplicate, unsorted or non-deterministic reports fail.",
   "Sub-lattices of the universes; single-rule configurations sampled by source hash."),
}
NOT_YET = {f"C{i:02d}" for i in range(1, 21)} - set(CHECKS)

def main():
    checks = []
    for pid, (cat, engine, tech, text, note) in sorted(CHECKS.items()):
        checks.append({
            "property_id": pid,
            "quick_cmd": f"{PY} -m vp.check {pid} --tier quick",
            "thorough_cmd": f"{PY} -m vp.check {pid} --tier thorough",
            "evidence_file": f"evidence/{pid}.json",
            "replay_cmd_template": f"{PY} -m vp.check {pid} --replay {{path}}",
            "engine": engine,
            "level_claimed": {"category": cat, "text": text, "design_ref": f"DESIGN.md section 4 ({pid})"},
            "level_note": note,
            "technique": tech,
        })
    man = {
        "version": 1,
        "setup_cmd": f"{PY} -m pip install --no-index --find-links /opt/veriftools/wheels hypothesis >/dev/null 2>&1; {PY} -m vp.setup",
        "hooks": {"guard": "PYMARKDOWN_VERIF", "enable": "no source hooks are needed; checks import /repo's working tree directly (PYMARKDOWN_VERIF=1 is exported but nothing in /repo reads it)", "baseline_off_cmd": BASE, "source_commits": [], "add_only": True},
        "engines": [
            {"name": "docprops", "path": "vp/docprops.py", "serves_properties": ["C01", "C02", "C03", "C04", "C05", "C20"], "kind_free_text": "bounded-exhaustive document universes + Hypothesis strategies, per-document oracles, exact-rank known-finding matching"},
            {"name": "scanprops", "path": "vp/engine.py", "serves_properties": ["C06", "C07", "C08", "C09", "C10", "C11", "C12", "C16"], "kind_free_text": "documents x configurations through PyMarkdownLint.main / PyMarkdownApi in private sandboxes"},
            {"name": "shell-models", "path": "vp/models", "serves_properties": ["C17", "C18", "C19"], "kind_free_text": "reference models of precedence, exit codes and file discovery compared with the real CLI"},
            {"name": "histories", "path": "vp/props", "serves_properties": ["C13", "C14", "C15"], "kind_free_text": "Hypothesis stateful machines / fault enumeration with a recorder plugin"},
        ],
        "checks": checks,
        "not_applicable": [{"property_id": p, "reason": "check not built yet in this revision (work in progress; the technique applies)"} for p in sorted(NOT_YET)],
        "notes": "All checks: python -m vp.check <id>; VERIF_SEED / VERIF_TIER honoured; exit 2 = harness error (no verdict).",
    }
    json.dump(man, open(os.path.join(V, "MANIFEST.json"), "w"), indent=1)
    print("wrote MANIFEST.json with", len(checks), "checks")

main()
