#!/bin/bash
# development aid (session 3): character-edit neighbourhood sub-lattice for the scan/fix properties, then distillation
while ! grep -q CHAIND-DONE /tmp/chainD.log 2>/dev/null; do sleep 30; done
cd /verif
/venv/bin/python -m tools.triage_engine C07 E1/211
/venv/bin/python -m tools.triage_engine C08 E1/211
/venv/bin/python -m tools.triage_engine C09 E1/211
/venv/bin/python -m tools.triage_engine C11 E1/211
echo CHAINE-TRIAGE-DONE
/venv/bin/python -m tools.distill parse
echo CHAINE-DONE
