#!/bin/bash
# Run every seeded change against the quick check of its property (and optionally others); writes seeded/RESULTS.md
# usage: tools/run_seeded.sh [tier]      (applies each patch to /repo, runs, reverts; /repo must be clean)
cd /verif
T=${1:-quick}
OUT=seeded/RESULTS.md
echo "| seeded change | property | tier | result | first signatures |" > $OUT
echo "|---|---|---|---|---|" >> $OUT
for d in seeded/C*-*/; do
  M=$(basename $d); P=${M%%-*}
  if ! git -C /repo apply --check /verif/seeded/$M/patch.diff 2>/dev/null; then
     echo "| $M | $P | $T | PATCH-DOES-NOT-APPLY (tree changed by a fix: commit) | |" >> $OUT; continue
  fi
  git -C /repo apply /verif/seeded/$M/patch.diff
  VERIF_SEED=${VERIF_SEED:-1} /venv/bin/python -m vp.check $P --tier $T > /tmp/seeded_${M}.log 2>&1
  rc=$?
  git -C /repo checkout -- .
  sigs=$(grep VIOLATION /tmp/seeded_${M}.log | sed 's/.*# //' | head -3 | tr '\n' ';' | cut -c1-160)
  res=$([ $rc -eq 1 ] && echo CAUGHT || ([ $rc -eq 0 ] && echo missed || echo "harness-error($rc)"))
  echo "| $M | $P | $T | $res | $sigs |" >> $OUT
  echo "$M $P $res"
done
git checkout -- evidence 2>/dev/null
