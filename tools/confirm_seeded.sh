#!/bin/bash
# Development tool: confirm a candidate breaking change written by a sub-agent before keeping it under seeded/.
# usage: tools/confirm_seeded.sh <candidate-dir (patch.diff demo.py meta.json)> <seeded-name e.g. C01-r3a> [pytest -n]
# Confirms in a scratch worktree of /repo HEAD: demo passes unpatched, patch applies, demo fails patched, full suite passes
# patched (apart from tests that fail identically on the unchanged tree).  Only then copies to /verif/seeded/<name>/.
set -u
C=$1; N=$2; J=${3:-6}
WT=/tmp/confirm-$N
LOG=/tmp/confirm-$N.log
rm -rf $WT; git -C /repo worktree prune
git -C /repo worktree add --detach $WT HEAD >/dev/null 2>&1 || { echo "$N worktree failed"; exit 2; }
cleanup() { git -C /repo worktree remove --force $WT >/dev/null 2>&1; rm -rf $WT; }
trap cleanup EXIT
cd $WT
timeout 600 /venv/bin/python $C/demo.py > $LOG.demo0 2>&1; d0=$?
git apply $C/patch.diff || { echo "$N: PATCH DOES NOT APPLY"; exit 1; }
timeout 600 /venv/bin/python $C/demo.py > $LOG.demo1 2>&1; d1=$?
/venv/bin/python -m pytest -q -p no:cacheprovider -n $J --timeout=900 > $LOG.suite 2>&1
tail -1 $LOG.suite > $LOG.result
failed=$(grep -c "^FAILED" $LOG.suite)
onlyknown=$(grep "^FAILED" $LOG.suite | grep -vc "test_markdown_with_dash_e_single_by_id_and_bad_config_file")
echo "$N: demo unpatched=$d0 patched=$d1 suite: $(cat $LOG.result) (failed lines: $failed, not-baseline: $onlyknown)"
if [ $d0 -eq 0 ] && [ $d1 -ne 0 ] && [ $onlyknown -eq 0 ] && grep -q " passed" $LOG.result; then
  mkdir -p /verif/seeded/$N
  cp $C/patch.diff $C/demo.py $C/meta.json /verif/seeded/$N/
  /venv/bin/python - "$N" "$(cat $LOG.result)" <<'EOF'
import json, sys
p = f"/verif/seeded/{sys.argv[1]}/meta.json"
m = json.load(open(p))
m["confirmed"] = {"by": "tools/confirm_seeded.sh in a scratch worktree of /repo HEAD", "demo_unpatched_exit": 0, "demo_patched_exit": "non-zero", "suite_with_patch": sys.argv[2],
                  "note": "test_markdown_with_dash_e_single_by_id_and_bad_config_file fails identically on the unchanged tree when pytest runs from a worktree path (installed application_properties error text); not counted"}
json.dump(m, open(p, "w"), indent=1)
EOF
  echo "$N: KEPT"
else
  echo "$N: REJECTED"
fi
