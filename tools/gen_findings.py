"""Development-time tool: (re)generate the rank-matched entries of known_findings.json from
known_findings_data/*.json.gz (written by tools/triage*.py).  Hand-written entries (without "auto") and the
adjudication table below are preserved.  usage: python -m tools.gen_findings"""
import gzip
import json
import os
import re

from vp import VERIF_DIR
from vp.findings import sig_id

DATA = os.path.join(VERIF_DIR, "known_findings_data")
KF = os.path.join(VERIF_DIR, "known_findings.json")

# C03: disagreements with the independent implementation adjudicated from the specification text.
# Everything not listed is "undecided" and is a rank-exact DOMAIN EXCLUSION (not printed as a finding).
ADJ = os.path.join(VERIF_DIR, "tools", "c03_adjudication.json")

TITLES = {
    "C01": lambda s: ("parsing does not terminate within the work budget (loop)" if s == "work-budget-exceeded" else
                      "parser exhausts memory" if s == "MemoryError" else
                      "parser fails with " + s.replace("exc:", "").replace("@", " in ")),
    "C02": lambda s: ("Markdown regenerator fails with " + s.replace("regen-exc:", "").replace("@", " in ") if s.startswith("regen-") else
                      "regenerated Markdown differs from the source (first difference: " + s.replace("diff:", "") + ")"),
    "C03": lambda s: "rendered HTML differs from the independent CommonMark implementation (" + s + ")",
    "C04": lambda s: "token stream is not well-formed: " + s,
    "C05": lambda s: "token positions do not point at the element: " + s,
}


def load(prop):
    p = os.path.join(DATA, f"{prop}.json.gz")
    if not os.path.exists(p):
        return None
    with gzip.open(p, "rt", encoding="utf-8") as f:
        return json.load(f)


def main():
    with open(KF, encoding="utf-8") as f:
        kf = json.load(f)
    manual = [e for e in kf["findings"] if not e.get("auto")]
    adj = json.load(open(ADJ)) if os.path.exists(ADJ) else {}
    adj2_path = os.path.join(VERIF_DIR, "tools", "adjudication.json")
    adj2 = json.load(open(adj2_path)) if os.path.exists(adj2_path) else {}
    auto = []
    summary = {}
    for fn in sorted(os.listdir(DATA)):
        if not fn.endswith(".json.gz"):
            continue
        prop = fn.split(".")[0]
        data = load(prop)
        agg = {}
        for uname, ud in data["universes"].items():
            for sig, val in ud["sigs"].items():
                a = agg.setdefault(sig, {"universes": {}, "examples": []})
                a["universes"][uname] = len(val["r"]) if isinstance(val, dict) else len(val)
                a["examples"] += ud.get("examples", {}).get(sig, [])
        for sig, a in sorted(agg.items()):
            ex = sorted(set(a["examples"]), key=len)[:3]
            title = TITLES.get(prop, lambda s: s)(sig)
            disposition = "genuine"
            note = None
            # properties whose oracle is an independent implementation or my reading of informal documentation:
            # a disagreement is a finding only once adjudicated (tools/c03_adjudication.json, tools/adjudication.json);
            # otherwise it is a rank-exact domain exclusion and is not printed as KNOWN-FINDING
            if prop in ("C03", "C06", "C08") or (prop == "C20" and "E1:" in sig and "E2" not in sig and "E3" not in sig):
                ad = adj.get(sig) or adj2.get(prop, {}).get(sig)
                disposition = ad["disposition"] if ad else "undecided"
                note = ad.get("note") if ad else None
            e = {"id": sig_id(prop, sig), "property": prop, "status": "open", "auto": True, "disposition": disposition, "title": title[:300],
                 "match": [{"kind": "ranks", "sig": sig, "universes": a["universes"]}], "examples": ex}
            if note:
                e["note"] = note
            if prop in ("C01",) and sig.startswith("exc:"):
                e["match"].append({"kind": "call_site", "sig": sig})
            if prop in ("C02",) and sig.startswith("regen-exc:"):
                e["match"].append({"kind": "call_site", "sig": sig})
            auto.append(e)
            summary.setdefault(prop, [0, 0])
            summary[prop][0] += 1
            summary[prop][1] += sum(a["universes"].values())
    kf["findings"] = manual + auto
    with open(KF, "w", encoding="utf-8") as f:
        json.dump(kf, f, indent=1, ensure_ascii=True)
    for p, (n, r) in sorted(summary.items()):
        print(f"{p}: {n} rank-matched entries covering {r} failing ranks")
    print("manual entries:", len(manual))


if __name__ == "__main__":
    main()
