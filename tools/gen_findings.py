"""Development-time tool: (re)generate the rank-matched entries of known_findings.json from
known_findings_data/*.json.gz (written by tools/triage*.py).  Hand-written entries (without "auto") and the
adjudication table below are preserved.  usage: python -m tools.gen_findings"""
import gzip
import json
import os
import re

from vp import VERIF_DIR
from vp.findings import sig_id

DATA = os.path.join(VERIF_DIR, "known_findings_data")
KF = os.path.join(VERIF_DIR, "known_findings.json")

# C03: disagreements with the independent implementation adjudicated from the specification text.
# Everything not listed is "undecided" and is a rank-exact DOMAIN EXCLUSION (not printed as a finding).
ADJ = os.path.join(VERIF_DIR, "tools", "c03_adjudication.json")

TITLES = {
    "C01": lambda s: ("parsing does not terminate within the work budget (loop)" if s == "work-budget-exceeded" else
                      "parser exhausts memory" if s == "MemoryError" else
                      "parser fails with " + s.replace("exc:", "").replace("@", " in ")),
    "C02": lambda s: ("Markdown regenerator fails with " + s.replace("regen-exc:", "").replace("@", " in ") if s.startswith("regen-") else
                      "regenerated Markdown differs from the source (first difference: " + s.replace("diff:", "") + ")"),
    "C03": lambda s: "rendered HTML differs from the independent CommonMark implementation (" + s + ")",
    "C04": lambda s: "token stream is not well-formed: " + s,
    "C05": lambda s: "token positions do not point at the element: " + s,
}


def _rules_in(sig):
    r = sorted(set(re.findall(r"(?:md|pml)\d{3}", sig.lower())))
    return ",".join(r) if r else "default-rule-set"


# For reporting, signatures of some properties are grouped (the exact signatures stay the matchers):
GROUP = {
    "C08": lambda s: "fix changes meaning; rules involved: " + _rules_in(s),
    "C09": lambda s: "fix does not converge; rules involved: " + _rules_in(s),
    "C06": lambda s: "rule verdict differs from the documented condition: " + _rules_in(s),
    "C12": lambda s: "rule reports depend on other rules being enabled: " + _rules_in(s),
    "C16": lambda s: "entry points disagree: " + ";".join(sorted({p.split("|")[-1] for p in s.split(";")})),
}


def load(prop):
    p = os.path.join(DATA, f"{prop}.json.gz")
    if not os.path.exists(p):
        return None
    with gzip.open(p, "rt", encoding="utf-8") as f:
        return json.load(f)


def main():
    with open(KF, encoding="utf-8") as f:
        kf = json.load(f)
    manual = [e for e in kf["findings"] if not e.get("auto")]
    adj = json.load(open(ADJ)) if os.path.exists(ADJ) else {}
    adj2_path = os.path.join(VERIF_DIR, "tools", "adjudication.json")
    adj2 = json.load(open(adj2_path)) if os.path.exists(adj2_path) else {}
    auto = []
    summary = {}
    for fn in sorted(os.listdir(DATA)):
        if not fn.endswith(".json.gz"):
            continue
        prop = fn.split(".")[0]
        data = load(prop)
        agg = {}
        for uname, ud in data["universes"].items():
            for sig, val in ud["sigs"].items():
                a = agg.setdefault(sig, {"universes": {}, "examples": []})
                a["universes"][uname] = len(val["r"]) if isinstance(val, dict) else len(val)
                a["examples"] += ud.get("examples", {}).get(sig, [])
        groups = {}
        for sig, a in sorted(agg.items()):
            g = GROUP[prop](sig) if prop in GROUP else sig
            grp = groups.setdefault(g, {"sigs": [], "universes": {}, "examples": []})
            grp["sigs"].append(sig)
            for u, n in a["universes"].items():
                grp["universes"][u] = grp["universes"].get(u, 0) + n
            grp["examples"] += a["examples"]
        for g, grp in sorted(groups.items()):
            ex = sorted(set(grp["examples"]), key=len)[:3]
            sig0 = grp["sigs"][0]
            title = TITLES.get(prop, lambda s: s)(sig0) if prop not in GROUP else g
            disposition = "genuine"
            note = None
            # properties whose oracle is an independent implementation or my reading of informal documentation:
            # a disagreement is a finding only once adjudicated (tools/c03_adjudication.json, tools/adjudication.json);
            # otherwise it is a rank-exact domain exclusion and is not printed as KNOWN-FINDING
            if prop in ("C03", "C06", "C08") or (prop == "C20" and all("E1:" in x and "E2" not in x and "E3" not in x for x in grp["sigs"])):
                ad = adj.get(sig0) or adj2.get(prop, {}).get(g) or adj2.get(prop, {}).get(sig0)
                disposition = ad["disposition"] if ad else "undecided"
                note = ad.get("note") if ad else None
            e = {"id": sig_id(prop, g), "property": prop, "status": "open", "auto": True, "disposition": disposition, "title": title[:300],
                 "match": [{"kind": "ranks", "sig": x} for x in grp["sigs"]], "universes": grp["universes"], "examples": ex}
            if note:
                e["note"] = note
            if prop in ("C01",) and sig0.startswith("exc:"):
                e["match"].append({"kind": "call_site", "sig": sig0})
            if prop in ("C02",) and sig0.startswith("regen-exc:"):
                e["match"].append({"kind": "call_site", "sig": sig0})
            auto.append(e)
            summary.setdefault(prop, [0, 0])
            summary[prop][0] += 1
            summary[prop][1] += sum(grp["universes"].values())
    kf["findings"] = manual + auto
    with open(KF, "w", encoding="utf-8") as f:
        json.dump(kf, f, indent=1, ensure_ascii=True)
    for p, (n, r) in sorted(summary.items()):
        print(f"{p}: {n} rank-matched entries covering {r} failing ranks")
    print("manual entries:", len(manual))


if __name__ == "__main__":
    main()
