"""dev tool: signature distribution with minimized examples for one doc-level property"""
import sys,collections
from vp import pool, universes
from vp.props import docs
from vp.ddmin import minimize_doc
prop=sys.argv[1]; unis=sys.argv[2].split(","); seed=int(sys.argv[3]) if len(sys.argv)>3 else 5
cnt=collections.Counter(); ex=collections.defaultdict(list); tot=0; skips=collections.Counter()
for un in unis:
    ranks,_=docs.plan_ranks(un,"quick",seed)
    jobs=[(un,c,[prop],()) for c in pool.chunks(ranks,400)]
    for res in pool.run_jobs("vp.docprops:eval_ranks", jobs):
        tot+=res["n"]
        for k,v in res["per_prop"][prop]["skips"].items(): skips[k]+=v
        for r,s in res["per_prop"][prop]["fail"]:
            cnt[s]+=1; ex[s].append(universes.get(un).doc(r))
print("total",tot,"fail",sum(cnt.values()),"skips",dict(skips))
for k,v in cnt.most_common(60):
    print(v,k)
    for d in sorted(ex[k],key=len)[:int(sys.argv[4]) if len(sys.argv)>4 else 2]:
        def fails(x,k=k):
            st,s,_=docs.eval_one(prop,x)
            return st=="fail" and s==k
        print("     ",repr(minimize_doc(d,fails,150)))
