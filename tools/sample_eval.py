"""Development-time: evaluate a scan-level property's evaluator on a small seeded sample of each plan universe and print the
failure signatures with examples (fast iteration on oracle code before a full triage).
usage: python -m tools.sample_eval C06 [n_per_universe] [universe,...]"""
import collections, importlib, random, sys
from vp import pool, engine  # noqa


def main():
    prop = sys.argv[1]
    n = int(sys.argv[2]) if len(sys.argv) > 2 else 300
    mod = importlib.import_module(f"vp.props.{prop.lower()}")
    unis = sys.argv[3].split(",") if len(sys.argv) > 3 else list(mod.PLAN)
    opts = getattr(mod, "TRIAGE_OPTS", None)
    jobs = []
    for un in unis:
        u = engine.get_universe(un)
        ranks = sorted(random.Random(f"sample:{un}").sample(range(u.size), min(n, u.size)))
        jobs += [(mod.EVALUATOR, un, ranks[i:i + 25], opts) for i in range(0, len(ranks), 25)]
    sigs = collections.defaultdict(list)
    tot = collections.Counter()
    for res in pool.run_jobs("vp.engine:eval_ranks", jobs, stall_s=3600):
        tot["n"] += res["n"]; tot["pass"] += res["pass"]; tot["skip"] += res["skip"]
        for r, s in res["fail"]:
            sigs[str(s).split("#")[0]].append((res["universe"], r))
    print(dict(tot))
    for s, lst in sorted(sigs.items(), key=lambda kv: -len(kv[1])):
        ex = sorted((engine.get_universe(u).doc(r) for u, r in lst[:30]), key=len)[:3]
        print(len(lst), s[:160], [repr(x)[:70] for x in ex])


if __name__ == "__main__":
    main()
