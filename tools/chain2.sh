#!/bin/bash
# development aid: run the second batch of per-property triages once the first batch has finished
while pgrep -f "tools.triage_engin[e]" >/dev/null; do sleep 20; done
cd /verif
/venv/bin/python -m tools.triage_engine C06
/venv/bin/python -m tools.triage_engine C07 H4/3,P2,R2/3,R3,K7/3
/venv/bin/python -m tools.triage_engine C11
/venv/bin/python -m tools.triage_engine C09 P2,R2/3,R3,K7
/venv/bin/python -m tools.triage_engine C08 P2,R2/3,R3,K7
/venv/bin/python -m tools.triage_engine C10 P2,R2/3
/venv/bin/python -m tools.triage_engine C16 P2,R2/3,R3/3
/venv/bin/python -m tools.triage_engine C12 P2/9
echo CHAIN2-DONE
