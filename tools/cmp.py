import sys
from vp.drive import get_parser
from vp.oracles import cmark, htmlnorm
p=get_parser()
for src in sys.argv[1:]:
    src=src.encode().decode('unicode_escape')
    print("SRC",repr(src))
    try:
        t=p.parse(src); print(" PM ",repr(p.html(t)))
    except Exception as e: print(" PM EXC",e)
    print(" MI ",repr(cmark.render(src)))
