#!/bin/bash
# development aid (session 3): remainder of the re-triage, run beside the parse distillation
cd /verif
/venv/bin/python -m tools.triage C01,C02,C03,C04,C05 P3
/venv/bin/python -m tools.triage_engine C07
/venv/bin/python -m tools.triage_engine C08 Q2,P3,B2/53
/venv/bin/python -m tools.triage_engine C09 Q2,P3,B2/53
/venv/bin/python -m tools.triage_engine C10 Q2/3,P3/5,B2/53
/venv/bin/python -m tools.triage_engine C11 Q2,P3/2,B2/53
/venv/bin/python -m tools.triage_engine C12 Q2/9,P3/17,B2/211
/venv/bin/python -m tools.triage_engine C20 X3/9
echo CHAIND-PART1-DONE
/venv/bin/python -m tools.triage_engine C06
echo CHAIND-C06-DONE
/venv/bin/python -m tools.triage_engine C16
echo CHAIND-C16-DONE
/venv/bin/python -m tools.distill parse
/venv/bin/python -m tools.distill scan
echo CHAIND-DONE
