#!/bin/bash
# development aid (session 3): after the triage: distillation of the small and medium universes, C16, quiet runs
while ! grep -q CHAINF-DONE /tmp/chainF.log 2>/dev/null; do sleep 20; done
cd /verif
/venv/bin/python -m tools.distill parse W1,N1,S2,S3,U1,X2,H4,M5,L1,P2,R2,R3,K7,T4,I6,L2,L3,L4,L5,H5,P3,M3,L6,G2,H6,L7
echo FINAL-DISTILL-PARSE-DONE
/venv/bin/python -m tools.distill scan Z1,Q2,P3,M3/3,M3/5,L6,G2,H6,L7,L7/3,T4/3,T4/5,H4,H4/3,R3,R2/3,U2,K7/3,P2,S3
echo FINAL-DISTILL-SCAN-DONE
/venv/bin/python -m tools.triage_engine C16
/venv/bin/python -m tools.gen_findings
echo FINAL-C16-DONE
tools/quiet_all.sh "1"
echo FINAL-QUIET1-DONE
