"""Development-time measurement: which lines / arcs of pymarkdown do the document universes reach?

usage: python -m tools.cover_universes OUT.json [--n 3000] [--universes B2,B3,...] [--mode parse|scan|fix]
Runs a seeded sample of every universe through parse + both generators (mode parse), or through
PyMarkdownLint.main scan / fix (modes scan, fix) under coverage.py (branch mode) in 16 worker processes and
writes {file: {"lines": [...], "arcs": [[a,b],...]}} for files under pymarkdown/.  Compare with the test
suite's own coverage (tools/cover_compare.py) to find code the suite exercises and the universes do not."""
import argparse
import json
import multiprocessing as mp
import os
import random
import sys
import tempfile

sys.path.insert(0, os.path.dirname(os.path.dirname(os.path.abspath(__file__))))


def worker(args):
    uname, ranks, mode, datafile = args
    import coverage

    cov = coverage.Coverage(data_file=datafile, branch=True, source=["pymarkdown"], config_file=False)
    cov.start()
    try:
        from vp import app, docprops, drive, engine, fixlib

        u = engine.get_universe(uname)
        for r in ranks:
            src = u.doc(r)
            try:
                if mode == "parse":
                    toks, sig, _ = docprops.guarded_parse(src)
                    if toks is not None:
                        try:
                            drive.Parser.html(toks)
                        except Exception:
                            pass
                        try:
                            drive.Parser.markdown(toks)
                        except Exception:
                            pass
                elif mode == "scan":
                    app.scan_text(src)
                else:
                    fixlib.fix_once(src, [])
            except Exception:
                pass
    finally:
        cov.stop()
        cov.save()
    return datafile


def main():
    ap = argparse.ArgumentParser()
    ap.add_argument("out")
    ap.add_argument("--n", type=int, default=3000)
    ap.add_argument("--universes", default="")
    ap.add_argument("--mode", default="parse")
    a = ap.parse_args()
    from vp import engine, universes

    names = a.universes.split(",") if a.universes else universes.ALL
    tmp = tempfile.mkdtemp(prefix="vpcov-")
    jobs = []
    for un in names:
        u = engine.get_universe(un)
        rnd = random.Random(f"cov:{un}")
        ranks = sorted(rnd.sample(range(u.size), min(a.n, u.size)))
        for i in range(0, len(ranks), 250):
            jobs.append((un, ranks[i : i + 250], a.mode, os.path.join(tmp, f"c.{un.replace('/', '_')}.{i}")))
    with mp.get_context("fork").Pool(16, maxtasksperchild=4) as pool:
        files = list(pool.imap_unordered(worker, jobs))
    import coverage

    cov = coverage.Coverage(data_file=os.path.join(tmp, "combined"), branch=True, config_file=False)
    cov.combine(files)
    data = cov.get_data()
    out = {}
    for f in data.measured_files():
        if "/pymarkdown/" not in f:
            continue
        rel = f[f.index("/pymarkdown/") + 1 :]
        out[rel] = {"lines": sorted(data.lines(f) or []), "arcs": sorted(map(list, data.arcs(f) or []))}
    with open(a.out, "w") as fh:
        json.dump(out, fh)
    import shutil

    shutil.rmtree(tmp, ignore_errors=True)
    print("files", len(out), "lines", sum(len(v["lines"]) for v in out.values()), "arcs", sum(len(v["arcs"]) for v in out.values()))


if __name__ == "__main__":
    main()
