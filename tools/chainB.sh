#!/bin/bash
# development aid (session 3): triage the identity-corpus universe Z1 for the scan/fix properties, then E1 for the document properties
while ! grep -q CHAINA-DONE /tmp/chainA.log 2>/dev/null; do sleep 30; done
cd /verif
/venv/bin/python -m tools.triage_engine C07 Z1
/venv/bin/python -m tools.triage_engine C08 Z1
/venv/bin/python -m tools.triage_engine C09 Z1
/venv/bin/python -m tools.triage_engine C10 Z1
/venv/bin/python -m tools.triage_engine C11 Z1
/venv/bin/python -m tools.triage_engine C12 Z1/4
/venv/bin/python -m tools.triage C01,C02,C03,C04,C05 E1
echo CHAINB-DONE
