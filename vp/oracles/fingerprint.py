"""C08 oracle: content fingerprint of a document through the independent renderer.

fp(src, fired) = event sequence of htmlnorm(markdown-it-py(src)) reduced by exactly the freedoms the
fixing rules document, each granted only when that rule reported on the original document:

 always   : whitespace runs inside text collapsed, leading/trailing blanks of a text run trimmed
            (MD009/MD010/MD019/MD021/MD023/MD027/MD030 normalise whitespace); <p> wrappers
            directly inside <li> ignored (MD031/MD032-style blank-line changes loosen lists);
            attribute order
 md001    : heading level ignored            ("heading count ... adjusted to match")
 md029    : <ol start> ignored               (list numbers)
 md046    : code block language class ignored, code content compared after removing common
            indentation and surrounding blank lines ("any whitespace before the code block is
            removed"; info string has no home in an indented block)
 md037    : <em>/<strong> tags and '*' '_' characters ignored (spaces inside emphasis markers
            are removed, which turns the text into emphasis)
 md038    : code span content trimmed
 md039    : link text trimmed (covered by the always-rule)
 md010    : tabs in text equal to blanks (covered by whitespace collapsing), tabs in code blocks
            (code_blocks defaults to true) compared with blank runs collapsed
 md004    : neighbouring bullet lists that differ only in marker character may join
 md047    : final newline (not visible in HTML)
 md044    : letter case of every string (only reachable with `names` configured: the #cfg pass)
Everything else must be identical: order and kind of blocks, list item count and nesting, quote
nesting, every text character, every link/image destination and title, raw HTML, <br>."""
import re
import textwrap

from . import cmark, htmlnorm

WS = re.compile(r"[ \t\n]+")


def fingerprint(src, fired=frozenset()):
    ev = htmlnorm.events(cmark.render(src))
    out = []
    in_pre = False
    in_code_span = False
    prev_tag = None
    for e in ev:
        k = e[0]
        if k == "S":
            tag, attrs = e[1], dict(e[2])
            if tag in ("em", "strong") and "md037" in fired:
                continue
            if tag == "p":
                if prev_tag == ("S", "li"):
                    prev_tag = ("S", "p-in-li")
                    continue
                out.append(("P",))
                prev_tag = ("S", "p")
                continue
            if tag in ("h1", "h2", "h3", "h4", "h5", "h6") and "md001" in fired:
                tag = "h"
            if tag == "ol" and "md029" in fired:
                attrs.pop("start", None)
            if tag == "pre":
                in_pre = True
            if tag == "code":
                if in_pre:
                    if "md046" in fired:
                        attrs.pop("class", None)
                else:
                    in_code_span = True
            out.append(("S", tag, tuple(sorted(attrs.items(), key=lambda kv: (kv[0], kv[1] or "")))))
            prev_tag = ("S", tag)
        elif k == "E":
            tag = e[1]
            if tag in ("em", "strong") and "md037" in fired:
                continue
            if tag == "p":
                prev_tag = ("E", "p")
                continue
            if tag in ("h1", "h2", "h3", "h4", "h5", "h6") and "md001" in fired:
                tag = "h"
            if tag == "pre":
                in_pre = False
            if tag == "code":
                in_code_span = False
            out.append(("E", tag))
            prev_tag = ("E", tag)
        elif k == "T":
            txt = e[1]
            if in_pre:
                if "md046" in fired:
                    txt = textwrap.dedent(txt).strip("\n")
                    txt = "\n".join(l.rstrip() for l in txt.split("\n"))
                if "md010" in fired:
                    # md010 (code_blocks=True by default) replaces hard tabs inside code blocks too
                    txt = re.sub(r"[ \t]+", " ", txt)
            else:
                if "md037" in fired:
                    txt = txt.replace("*", "").replace("_", "")
                txt = WS.sub(" ", txt)
                if in_code_span and "md038" in fired:
                    txt = txt.strip(" ")
            if out and out[-1][0] == "T":
                out[-1] = ("T", out[-1][1] + txt)
            else:
                out.append(("T", txt))
            prev_tag = None
        else:
            out.append(e)
            prev_tag = None
    # trim text runs at element borders and drop empties
    final = []
    for i, e in enumerate(out):
        if e[0] == "T" and not _inside_pre(out, i):
            t = e[1].strip(" ")
            t = WS.sub(" ", t)
            if not t:
                continue
            final.append(("T", t))
        else:
            final.append(e)
    if "md004" in fired:
        # changing a bullet character joins neighbouring lists that differed only in marker
        joined = []
        for e in final:
            if e == ("S", "ul", ()) and joined and joined[-1] == ("E", "ul"):
                joined.pop()
                continue
            joined.append(e)
        final = joined
    # merge text runs that became adjacent, normalise inner spacing around dropped tags
    merged = []
    for e in final:
        if e[0] == "T" and merged and merged[-1][0] == "T":
            merged[-1] = ("T", WS.sub(" ", merged[-1][1] + " " + e[1]))
        else:
            merged.append(e)
    if "md044" in fired:
        # md044 (only with `names` configured) replaces a word by its configured capitalisation wherever it searches:
        # text, code, comments, link titles -- letter case is its documented freedom
        def fold(x):
            if isinstance(x, str):
                return x.casefold()
            if isinstance(x, tuple):
                return tuple(fold(y) for y in x)
            return x

        merged = [fold(e) for e in merged]
    return merged


def _inside_pre(out, i):
    depth = 0
    for e in out[:i]:
        if e[0] == "S" and e[1] == "pre":
            depth += 1
        elif e[0] == "E" and e[1] == "pre":
            depth -= 1
    return depth > 0


def diff_class(a, b):
    return htmlnorm.diff_class(a, b)
