"""Adapter around the vendored independent CommonMark implementation (markdown-it-py 4.0.0).

It shares no code with PyMarkdown.  Its trustworthiness on mainstream constructs is checked by
vp.setup (all 652 CommonMark 0.31.2 examples must render to the expected HTML after htmlnorm).

Domain exclusions: constructs on which CommonMark 0.29 (PyMarkdown's target) and 0.31 (the
oracle) differ are outside C03's quantifier; `excluded(src)` names the reason (counted in the
evidence as excluded_by_construction)."""
import re

from .. import setup_repo

setup_repo()

_MD = None


def _md():
    global _MD
    if _MD is None:
        from markdown_it import MarkdownIt

        _MD = MarkdownIt("commonmark")
    return _MD


def render(src):
    # A final newline is semantically neutral in CommonMark; markdown-it-py loses the last "\n"
    # of an unclosed fenced block's content when the source has none, so always supply one.
    if not src.endswith("\n"):
        src = src + "\n"
    return _md().render(src)


def parse(src):
    if not src.endswith("\n"):
        src = src + "\n"
    return _md().parse(src)


_SIMPLE_COMMENT = re.compile(r"<!--(?!>|->)(?:(?!--).)*?-->", re.S)
_TAGS_CHANGED = re.compile(r"</?(textarea|source|search)\b", re.I)
# oracle deviations from the specification text (adjudicated, see DESIGN section 8)
_IMG_ALT_SPECIAL = re.compile(r"!\[[^\]]*[\\&<`]")
_EMPTY_ITEM = re.compile(r"^([ >]*)(?:[-+*]|\d{1,9}[.)])[ \t]*$")
_QPREFIX = re.compile(r"^[ >]*")


def _lazy_empty_item(src):
    """An empty list item marker on a line that has fewer '>' than the non-blank line before it:
    by the spec text this is lazy paragraph continuation (an empty item cannot interrupt a
    paragraph); commonmark.js / markdown-it start a list.  Excluded from the domain."""
    prev = ""
    for line in src.split("\n"):
        m = _EMPTY_ITEM.match(line)
        if m and prev.strip(" >\t") and m.group(1).count(">") < _QPREFIX.match(prev).group(0).count(">"):
            return True
        prev = line
    return False


def excluded(src):
    """Reason string if the document uses a construct where 0.29 and 0.31 differ (or where the
    oracle is documented to deviate), else None."""
    if not src.isascii():
        # 0.31: Unicode symbols count as punctuation for flanking; case folding / punycode /
        # percent-encoding of non-ASCII differ between implementations in spec-allowed ways.
        if any(c in src for c in "*_[<&"):
            return "non-ascii next to emphasis/link/autolink/entity syntax (0.31 flanking, folding)"
    if "<!--" in src:
        rest = _SIMPLE_COMMENT.sub("", src)
        if "<!--" in rest:
            return "html comment form changed in 0.31 (<!-->, <!--->, '--' inside)"
    if _TAGS_CHANGED.search(src):
        return "html block tag list changed after 0.29 (textarea/source/search)"
    if _IMG_ALT_SPECIAL.search(src):
        return "image description with escape/entity/raw html/code (markdown-it-py drops them from alt)"
    if _lazy_empty_item(src):
        return "empty list item marker as lazy continuation of a quoted paragraph (reference implementations start a list; spec text keeps the paragraph)"
    if "\r" in src:
        return "carriage return (line ending normalisation outside C03)"
    if "\x00" in src:
        return "NUL replacement"
    return None
