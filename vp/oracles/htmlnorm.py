"""HTML normalisation for C03/C08/C20: HTML text -> comparable event sequence.

Freedoms granted (and only these):
 * whitespace-only text between block-level tags and the newline directly inside/around block
   tags is insignificant (statement: "up to insignificant whitespace between block tags");
 * attribute order; `<br />` == `<br>`, `<hr />` == `<hr>`, `<img ... />` == `<img ...>`;
 * href/src compared after percent-decoding (equivalent encodings of the same target).
Everything else (tag structure, attribute values, every text character, <pre> content byte
for byte, raw HTML, comments) is compared exactly."""
from html.parser import HTMLParser
from urllib.parse import unquote

BLOCK_TAGS = {
    "p", "h1", "h2", "h3", "h4", "h5", "h6", "ul", "ol", "li", "blockquote", "pre", "hr",
    "div", "table", "thead", "tbody", "tr", "td", "th",
}


class _P(HTMLParser):
    def __init__(self):
        super().__init__(convert_charrefs=True)
        self.ev = []

    def handle_starttag(self, tag, attrs):
        a = []
        for k, v in attrs:
            if k in ("href", "src") and v is not None:
                v = unquote(v)
            a.append((k, v))
        self.ev.append(("S", tag, tuple(sorted(a, key=lambda kv: (kv[0], kv[1] or "")))))

    def handle_startendtag(self, tag, attrs):
        self.handle_starttag(tag, attrs)

    def handle_endtag(self, tag):
        self.ev.append(("E", tag))

    def handle_data(self, data):
        if self.ev and self.ev[-1][0] == "T":
            self.ev[-1] = ("T", self.ev[-1][1] + data)
        else:
            self.ev.append(("T", data))

    def handle_comment(self, data):
        self.ev.append(("C", data))

    def handle_decl(self, decl):
        self.ev.append(("D", decl))

    def handle_pi(self, data):
        self.ev.append(("PI", data))

    def unknown_decl(self, data):
        self.ev.append(("UD", data))


def _is_block(ev):
    return ev is not None and ev[0] in ("S", "E") and ev[1] in BLOCK_TAGS


def events(html):
    p = _P()
    p.feed(html)
    p.close()
    ev = p.ev
    out = []
    in_pre = 0
    n = len(ev)
    for i, e in enumerate(ev):
        if e[0] == "S" and e[1] == "pre":
            in_pre += 1
        elif e[0] == "E" and e[1] == "pre":
            in_pre = max(0, in_pre - 1)
        if e[0] == "T" and not in_pre:
            prev = ev[i - 1] if i > 0 else None
            nxt = ev[i + 1] if i + 1 < n else None
            txt = e[1]
            if prev is None or _is_block(prev):
                txt = txt.lstrip("\n")
            if nxt is None or _is_block(nxt):
                txt = txt.rstrip("\n")
            if (prev is None or _is_block(prev)) and (nxt is None or _is_block(nxt)) and not txt.strip():
                continue
            if not txt:
                continue
            out.append(("T", txt))
        else:
            out.append(e)
    return out


def first_diff(a, b):
    """First differing event pair with the open-tag stack at that point (for grouping)."""
    stack = []
    for i in range(max(len(a), len(b))):
        x = a[i] if i < len(a) else None
        y = b[i] if i < len(b) else None
        if x != y:
            return i, x, y, tuple(stack)
        if x[0] == "S" and x[1] not in ("br", "hr", "img"):
            stack.append(x[1])
        elif x[0] == "E" and stack and stack[-1] == x[1]:
            stack.pop()
    return None


def diff_class(a, b):
    d = first_diff(a, b)
    if d is None:
        return None
    _, x, y, stack = d

    def k(e):
        if e is None:
            return "END"
        if e[0] in ("S", "E"):
            return e[0] + ":" + e[1]
        return e[0]

    return f"{k(x)}|{k(y)}|in:{'/'.join(stack[-2:])}"
