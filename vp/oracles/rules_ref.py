"""C06 oracle: independent statements of the documented rule triggers.

Each reference takes (source lines, block view from the independent parser, configuration dict) and returns
(must, must_not): sets of 1-based line numbers on which the rule must / must not report.  Lines in neither
set are "don't care" (documentation silent or ambiguous).  Only (line, rule id) is compared.

The block view comes from markdown-it-py tokens with line maps (vp.oracles.cmark.parse), never from
PyMarkdown; C06 only runs on documents where C03's oracle holds, so both parsers agree on structure."""
import re

from . import cmark


class View:
    """Structural facts about a document taken from the independent parser."""

    def __init__(self, src):
        self.src = src
        self.lines = src.split("\n")
        self.n = len(self.lines)
        toks = cmark.parse(src)
        self.tokens = toks
        self.headings = []  # (level, first_line, last_line, markup, text, container_depth, inline_token)
        self.fences = []  # (first_line, last_line_exclusive, markup, info, depth)
        self.code_blocks = []  # indented: (first, last_excl, depth)
        self.hrs = []  # (line, markup, depth)
        self.ul_items = []  # (line, markup, list_depth, depth)
        self.html_blocks = []
        self.paragraphs = []  # (first, last_excl, depth)
        self.links = []  # (line_of_paragraph_start, href, text, is_image)
        self.top_blocks = []  # (type, first_line, last_line) of depth-0 blocks in order
        self.ol_lists = []  # top-level ordered lists: [(line, number, text_after_marker)]
        self.li_items = []  # (line, depth_of_containers, ordered?)
        self.code_lines = set()  # content + marker lines of any code block
        self.code_content_lines = set()
        self.fence_marker_lines = set()
        depth = 0
        ul_depth = 0
        first_block = None
        i = 0
        while i < len(toks):
            t = toks[i]
            if t.type in ("blockquote_open", "bullet_list_open", "ordered_list_open"):
                depth += 1
                if t.type == "bullet_list_open":
                    ul_depth += 1
            elif t.type in ("blockquote_close", "bullet_list_close", "ordered_list_close"):
                depth -= 1
                if t.type == "bullet_list_close":
                    ul_depth -= 1
            elif t.type == "list_item_open" and ul_depth and t.markup in "-+*":
                is_start = i > 0 and toks[i - 1].type == "bullet_list_open"
                self.ul_items.append((t.map[0] + 1, t.markup, ul_depth, depth, is_start))
            if t.map and t.level == 0 and t.type.endswith(("_open", "fence", "code_block", "hr", "html_block")) or (t.map and t.level == 0 and t.type in ("fence", "code_block", "hr", "html_block")):
                self.top_blocks.append((t.type, t.map[0] + 1, t.map[1]))
            if t.type == "ordered_list_open" and t.level == 0:
                items = []
                j = i + 1
                lvl = 0
                while j < len(toks) and not (toks[j].type == "ordered_list_close" and toks[j].level == 0):
                    if toks[j].type == "list_item_open" and toks[j].level == 1:
                        items.append((toks[j].map[0] + 1, toks[j].info, toks[j].map[1]))
                    j += 1
                self.ol_lists.append(items)
            if t.type == "list_item_open":
                self.li_items.append((t.map[0] + 1, t.level, t.markup, t.map[1]))
            if t.map and first_block is None and t.type not in ("blockquote_open", "bullet_list_open", "ordered_list_open", "list_item_open"):
                first_block = t
            if t.type == "heading_open":
                inline = toks[i + 1]
                self.headings.append((int(t.tag[1]), t.map[0] + 1, t.map[1], t.markup, inline.content, depth, inline))
            elif t.type == "fence":
                a, b = t.map
                self.fences.append((a + 1, b, t.markup, t.info, depth))
                for ln in range(a + 1, b + 1):
                    self.code_lines.add(ln)
                self.fence_marker_lines.add(a + 1)
                closed = b - a >= 2 and re.match(r"^[ >\t]*(`{3,}|~{3,})[ \t]*$", self.lines[b - 1] if b - 1 < self.n else "") is not None
                if closed:
                    self.fence_marker_lines.add(b)
                for ln in range(a + 2, b + (0 if closed else 1)):
                    self.code_content_lines.add(ln)
            elif t.type == "code_block":
                a, b = t.map
                self.code_blocks.append((a + 1, b, depth))
                for ln in range(a + 1, b + 1):
                    self.code_lines.add(ln)
                    self.code_content_lines.add(ln)
            elif t.type == "hr":
                self.hrs.append((t.map[0] + 1, t.markup, depth))
            elif t.type == "html_block":
                self.html_blocks.append((t.map[0] + 1, t.map[1], depth))
            elif t.type == "paragraph_open":
                self.paragraphs.append((t.map[0] + 1, t.map[1], depth))
            elif t.type == "inline" and t.children:
                base = t.map[0] + 1 if t.map else 0
                j = 0
                ch = t.children
                while j < len(ch):
                    c = ch[j]
                    if c.type == "link_open":
                        txt = ""
                        k = j + 1
                        while k < len(ch) and ch[k].type != "link_close":
                            txt += ch[k].content or ""
                            k += 1
                        self.links.append((base, c.attrGet("href") or "", txt, False))
                    elif c.type == "image":
                        self.links.append((base, c.attrGet("src") or "", c.content or "", True))
                    j += 1
            i += 1
        self.first_block = first_block
        self.heading_lines = set()
        for lv, a, b, mk, tx, d, _ in self.headings:
            for ln in range(a, b + 1):
                self.heading_lines.add(ln)

    def line(self, ln):
        return self.lines[ln - 1] if 1 <= ln <= self.n else ""


def all_lines(v):
    # the final empty "line" after a trailing newline is not a line of the document
    return set(range(1, v.n + (0 if v.lines[-1] == "" else 1))) if v.n else set()


# ---------------------------------------------------------------------------------------------- line rules
def md047(v, cfg):
    """triggers when the document does not end with a single newline character"""
    if not v.src:
        return set(), set()
    if v.src.endswith("\n"):
        if v.src.endswith("\n\n") or v.lines[-2].strip() == "" and len(v.lines) >= 2 and v.lines[-2] != "":
            return set(), set()  # trailing blank / whitespace lines: the documentation's second scenario, left undecided
        return set(), all_lines(v) | {v.n}
    last = v.n
    if v.lines[-1].strip() == "":
        return set(), set()
    return {last}, set(range(1, last))


def md009(v, cfg):
    """any line ends with spaces whose count is not br_spaces (strict: any trailing space); code blocks exempt"""
    br = cfg.get("br_spaces", 2)
    strict = cfg.get("strict", False)
    must, must_not = set(), set()
    for ln in sorted(all_lines(v)):
        line = v.line(ln)
        stripped = line.rstrip(" ")
        k = len(line) - len(stripped)
        if stripped.endswith("\t") or "\t" in line[len(stripped):]:
            continue  # mixed tab/space trailing whitespace: undecided
        if ln in v.code_lines:
            if ln in v.code_content_lines:
                must_not.add(ln)
            continue
        if k == 0:
            must_not.add(ln)
        elif not stripped:
            continue  # whitespace-only line: interaction with list_item_empty_lines / blank handling, undecided
        elif k != br or strict:
            must.add(ln)
        else:
            must_not.add(ln)
    return must, must_not


def md010(v, cfg):
    """any line of the document has a hard tab character (code_blocks=false: not inside code blocks)"""
    in_code = cfg.get("code_blocks", True)
    must, must_not = set(), set()
    for ln in sorted(all_lines(v)):
        line = v.line(ln)
        if "\t" not in line:
            must_not.add(ln)
        elif ln in v.code_lines:
            fenced_content = ln in v.code_content_lines and any(a < ln <= b for a, b, *_ in v.fences)
            if in_code:
                if ln in v.code_content_lines:
                    must.add(ln)
            elif fenced_content:
                # (a tab that *makes* an indented code block is arguably not "within" it: only fenced content is judged)
                must_not.add(ln)
        else:
            must.add(ln)
    return must, must_not


def md013(v, cfg):
    """strict=true: any line longer than the limit of its kind (normal / heading / code block)"""
    if cfg.get("stern"):
        return set(), set()
    strict = bool(cfg.get("strict"))
    ll, hl, cl = cfg.get("line_length", 80), cfg.get("heading_line_length", 80), cfg.get("code_block_line_length", 80)
    must, must_not = set(), set()
    atx_lines = {a for lv, a, b, mk, tx, d, _ in v.headings if mk.startswith("#") and b == a}
    setext_lines = v.heading_lines - atx_lines
    para_lines = set()
    for a, b, d in v.paragraphs:
        para_lines.update(range(a, b + 1))
    for ln in sorted(all_lines(v)):
        L = len(v.line(ln))
        if ln in atx_lines:
            lim = hl if cfg.get("headings", True) else None
        elif ln in setext_lines or ln in v.fence_marker_lines:
            continue  # which limit applies to underline / fence lines is not documented
        elif ln in v.code_content_lines:
            lim = cl if cfg.get("code_blocks", True) else None
        elif ln in para_lines:
            lim = ll
        else:
            continue
        if lim is None:
            must_not.add(ln)
        elif L > lim and not strict:
            # "Long Last Words": without strict the rule triggers only if there is whitespace beyond the limit
            beyond = v.line(ln)[lim:]
            if re.search(r"\S[ ]\S", v.line(ln)[lim - 1:]) and "\t" not in v.line(ln):
                must.add(ln)
            elif not re.search(r"\s", v.line(ln)[max(lim - 2, 0):]):
                must_not.add(ln)
        elif L > lim:
            must.add(ln)
        elif L <= min(ll, hl, cl):
            must_not.add(ln)
        elif L <= lim:
            must_not.add(ln)
    return must, must_not


# ---------------------------------------------------------------------------------------------- headings
def md001(v, cfg):
    """a heading level is increased by more than one level"""
    must, must_not = set(), set()
    prev = None
    for lv, a, b, mk, tx, d, _ in v.headings:
        rng = set(range(a, b + 1))
        if prev is not None and lv > prev + 1:
            if b == a:
                must.add(a)
        else:
            must_not |= rng
        prev = lv
    must_not |= all_lines(v) - v.heading_lines - must
    return must, must_not


def md018(v, cfg):
    """a paragraph line that, after 0-3 leading spaces, starts with 1-6 '#' directly followed by a non-space character
    (no inline elements on the line, no closing hashes); top-level paragraphs only"""
    must, must_not = set(), set()
    for a, b, d in v.paragraphs:
        if d != 0:
            continue
        for ln in range(a, b + 1):
            line = v.line(ln)
            m = re.match(r"^ {0,3}(#{1,6})([^#\s].*)$", line)
            if m and re.fullmatch(r"[A-Za-z0-9 ]+", m.group(2)) and not line.rstrip().endswith("#"):
                must.add(ln)
    must_not |= {ln for ln in all_lines(v) if "#" not in v.line(ln)}
    return must, must_not


def md019(v, cfg):
    """Atx heading with more than one space between the last # and the first non-space character"""
    must, must_not = set(), set()
    for lv, a, b, mk, tx, d, _ in v.headings:
        if not mk.startswith("#") or b != a:
            continue
        line = v.line(a)
        m = re.match(r"^[ >\t]*(?:[-+*]|\d+[.)])?[ >\t]*(#{1,6})([ \t]*)(\S?)", line)
        if d == 0:
            m = re.match(r"^ {0,3}(#{1,6})([ \t]*)(\S?)", line)
            if not m or not m.group(3):
                continue
            if re.search(r"#\s*$", line):
                continue  # closed ATX headings are md021's
            ws = m.group(2)
            if "\t" in ws:
                continue
            if len(ws) > 1 and tx.strip():
                must.add(a)
            elif len(ws) == 1:
                must_not.add(a)
    must_not |= all_lines(v) - v.heading_lines
    return must, must_not


def md023(v, cfg):
    """one or more whitespace characters precede the heading (top-level headings only are judged)"""
    must, must_not = set(), set()
    for lv, a, b, mk, tx, d, _ in v.headings:
        if d != 0:
            continue
        if mk.startswith("#") and b == a:
            line = v.line(a)
            if line.startswith(" "):
                must.add(a)
            elif line.startswith("#"):
                must_not.add(a)
        else:
            if all(not v.line(ln).startswith((" ", "\t")) for ln in range(a, b + 1)):
                must_not |= set(range(a, b + 1))
    must_not |= all_lines(v) - v.heading_lines
    return must, must_not


def md025(v, cfg):
    """more than one top-level heading in the document (atx or setext)"""
    level = cfg.get("level", 1)
    must, must_not = set(), set()
    seen = 0
    for lv, a, b, mk, tx, d, _ in v.headings:
        if lv == level:
            seen += 1
            if seen > 1:
                if b == a:
                    must.add(a)
            else:
                must_not |= set(range(a, b + 1))
        else:
            must_not |= set(range(a, b + 1))
    must_not |= all_lines(v) - v.heading_lines
    return must, must_not


def md024(v, cfg):
    """multiple headings with the same text (strict comparison).  siblings_only / allow_different_nesting: only a
    heading that repeats the text of an earlier heading of the same level with no shallower heading in between (same
    parent) MUST be reported; a repeat elsewhere in the hierarchy is not judged"""
    siblings = bool(cfg.get("siblings_only") or cfg.get("allow_different_nesting"))
    must, must_not = set(), set()
    seen = set()
    history = []  # (level, text) of judged headings, None for unjudged ones
    for lv, a, b, mk, tx, d, inline in v.headings:
        plain = all(c.type == "text" for c in (inline.children or []))
        raw = v.line(a)
        if mk.startswith("#") and re.match(r"^[ >]*#{1,6}( {2,}|\t)", raw):
            plain = False  # extra blanks after the hashes: whether they belong to the compared "text" is not documented
        if not plain:
            seen.add(("?", a))
            history.append(None)
            continue
        if tx in seen and tx.strip():
            if b == a:
                if not siblings:
                    must.add(a)
                else:
                    same_parent = False
                    for prev in reversed(history):
                        if prev is None:
                            break
                        if prev[0] < lv:
                            break
                        if prev[0] == lv and prev[1] == tx:
                            same_parent = True
                            break
                    if same_parent:
                        must.add(a)
        else:
            if tx not in seen:
                must_not |= set(range(a, b + 1))
        seen.add(tx)
        history.append((lv, tx))
    must_not |= all_lines(v) - v.heading_lines
    return must, must_not


def md026(v, cfg):
    """a heading ends with one of the punctuation characters (entity references exempt)"""
    punct = cfg.get("punctuation", ".,;:!。，；：！")
    must, must_not = set(), set()
    for lv, a, b, mk, tx, d, inline in v.headings:
        ch = [c for c in (inline.children or []) if not (c.type == "text" and c.content == "")]
        if ch and ch[-1].type in ("code_inline", "html_inline", "image") and mk.startswith("#") and b == a:
            raw = v.line(a).rstrip()
            if raw and raw[-1] not in punct and raw[-1] != "#" and "&" not in raw and "\\" not in raw:
                must_not.add(a)  # the heading ends with a code span / raw HTML / image, not with a punctuation character
            continue
        if not ch or any(c.type not in ("text",) for c in ch):
            continue  # other headings with inline elements / entities at the end: undecided
        raw = v.line(b if not mk.startswith("#") else a)
        if "&" in raw or "\\" in raw:
            continue
        t = tx.rstrip()
        if not t:
            continue
        if t[-1] in punct:
            if b == a and mk.startswith("#") and not re.search(r"#+\s*$", raw.rstrip()):
                must.add(a)
        else:
            must_not |= set(range(a, b + 1))
    must_not |= all_lines(v) - v.heading_lines
    return must, must_not


def md041(v, cfg):
    """the first element in the document is not a top-level heading (html <h1> start exempt)"""
    must, must_not = set(), set()
    fb = v.first_block
    toks = v.tokens
    if not toks:
        return set(), set()
    first = toks[0]
    if first.type == "heading_open":
        if first.map[0] != 0:
            return set(), set()  # something invisible (link reference definition, blank lines) precedes the heading: undecided
        if first.tag == "h1":
            return set(), all_lines(v)
        return set(), set()  # wrong level: reported somewhere near the heading; line not documented
    if first.type == "html_block":
        return set(), set()
    if first.type == "paragraph_open" and first.map[0] == 0:
        return {1}, all_lines(v) - {1}
    return set(), set()


# ---------------------------------------------------------------------------------------------- fences / code
def md040(v, cfg):
    """fenced code block without (non-whitespace) text after the opening fence"""
    must, must_not = set(), set()
    for a, b, mk, info, d in v.fences:
        if info.strip():
            must_not.add(a)
        else:
            must.add(a)
    must_not |= all_lines(v) - {a for a, *_ in v.fences}
    return must, must_not


def md048(v, cfg):
    """inconsistent fence characters (consistent = first fence; or configured backtick/tilde)"""
    style = cfg.get("style", "consistent")
    must, must_not = set(), set()
    want = {"backtick": "`", "tilde": "~"}.get(style)
    for a, b, mk, info, d in v.fences:
        ch = mk[0]
        if want is None:
            want = ch
        if ch != want:
            must.add(a)
        else:
            must_not.add(a)
    must_not |= all_lines(v) - v.code_lines
    return must, must_not


def md046(v, cfg):
    """inconsistent code block style (consistent = first code block; or configured fenced/indented)"""
    style = cfg.get("style", "consistent")
    blocks = sorted([(a, "fenced") for a, *_ in v.fences] + [(a, "indented") for a, *_ in v.code_blocks])
    must, must_not = set(), set()
    want = style if style in ("fenced", "indented") else None
    for a, kind in blocks:
        if want is None:
            want = kind
        if kind != want:
            must.add(a)
        else:
            must_not.add(a)
    must_not |= all_lines(v) - v.code_lines
    return must, must_not


def md035(v, cfg):
    """horizontal rule style not consistent with the first one (leading whitespace discarded)"""
    style = cfg.get("style", "consistent")
    must, must_not = set(), set()
    want = None if style == "consistent" else style
    if any(d != 0 for ln, mk, d in v.hrs):
        return set(), set()  # the marker text of a nested rule has to be cut out of its line: not judged
    for ln, mk, d in v.hrs:
        text = v.line(ln)
        if d != 0:
            continue  # inside containers the marker text has to be cut out of the line: undecided
        if text != text.rstrip():
            if want is None:
                return set(), set()
            continue  # trailing whitespace after the marker: only LEADING whitespace is documented as discarded
        text = text.strip()
        if want is None:
            want = text
        if text != want:
            must.add(ln)
        else:
            must_not.add(ln)
    must_not |= all_lines(v) - {ln for ln, *_ in v.hrs}
    return must, must_not


def md004(v, cfg):
    """unordered list start character does not match the style (consistent = first in document; plus/dash/asterisk)"""
    style = cfg.get("style", "consistent")
    if style == "sublist":
        return set(), set()
    want = {"plus": "+", "dash": "-", "asterisk": "*"}.get(style)
    must, must_not = set(), set()
    item_lines = set()
    for ln, mk, ld, d, is_start in v.ul_items:
        item_lines.add(ln)
        if not is_start:
            continue  # the rule is about Unordered List *Start*s; later items of a list share its marker
        if want is None:
            want = mk
        if mk != want:
            must.add(ln)
        else:
            must_not.add(ln)
    # several items can start on one line ("- - a"): keep only unambiguous lines
    multi = {ln for ln in item_lines if sum(1 for x in v.ul_items if x[0] == ln) > 1}
    must -= multi
    must_not -= multi
    must_not |= all_lines(v) - item_lines
    return must, must_not


# ---------------------------------------------------------------------------------------------- links
def md042(v, cfg):
    """link with an empty destination or an empty fragment '#' """
    must, must_not = set(), set()
    by_para = {}
    for base, href, txt, img in v.links:
        if img:
            continue
        by_para.setdefault(base, []).append(href)
    para_span = {a: b for a, b, d in v.paragraphs}
    for base, hrefs in by_para.items():
        span = para_span.get(base)
        if span is None or span != base:
            continue  # only single-line paragraphs: the reported line of a link inside a multi-line paragraph is C05's business
        if any(h.strip() in ("", "#") for h in hrefs):
            must.add(base)
        else:
            must_not.add(base)
    lines_with_links = set(by_para)
    plain = {ln for ln in all_lines(v) if "[" not in v.line(ln) and "<" not in v.line(ln)}
    must_not |= plain - lines_with_links
    return must, must_not


def md045(v, cfg):
    """image whose description (alt text) is empty or whitespace only"""
    must, must_not = set(), set()
    by_para = {}
    for base, href, txt, img in v.links:
        if img:
            by_para.setdefault(base, []).append(txt)
    para_span = {a: b for a, b, d in v.paragraphs}
    for base, alts in by_para.items():
        if para_span.get(base) != base:
            continue
        if any(not a.strip() for a in alts):
            must.add(base)
        else:
            must_not.add(base)
    plain = {ln for ln in all_lines(v) if "![" not in v.line(ln)}
    must_not |= plain - set(by_para)
    return must, must_not


# ---------------------------------------------------------------------------------------------- blank lines around blocks
def _blank(v, ln):
    return 1 <= ln <= v.n and v.line(ln).strip() == ""


def _quasi_blank(v, ln):
    """a line that is blank once quote markers are removed (`>`): whether it counts as a Blank Line for the
    blank-lines-around rules is not documented"""
    return 1 <= ln <= v.n and v.line(ln).strip() != "" and v.line(ln).strip(" >\t") == ""


def md022(v, cfg):
    """blank lines above/below a heading differ from the configured number (default 1); top-level ATX headings only"""
    above, below = cfg.get("lines_above", 1), cfg.get("lines_below", 1)
    must, must_not = set(), set()
    last_real = v.n - 1 if v.lines[-1] == "" else v.n
    for lv, a, b, mk, tx, d, _ in v.headings:
        if d != 0 or not mk.startswith("#") or b != a:
            continue
        ok_above = ok_below = None
        if a == 1:
            ok_above = True
        else:
            k = 0
            ln = a - 1
            while ln >= 1 and _blank(v, ln):
                k += 1
                ln -= 1
            if ln >= 1:
                ok_above = k == above
        if a == last_real:
            ok_below = None  # end of document: not documented
        else:
            k = 0
            ln = a + 1
            while ln <= last_real and _blank(v, ln):
                k += 1
                ln += 1
            if ln <= last_real:
                ok_below = k == below
        if ok_above is False or ok_below is False:
            must.add(a)
        elif ok_above is True and ok_below is True:
            must_not.add(a)
    must_not |= all_lines(v) - v.heading_lines
    return must, must_not


def md031(v, cfg):
    """fenced code block not surrounded by blank lines (top-level fences; start/end of document exempt)"""
    must, must_not = set(), set()
    last_real = v.n - 1 if v.lines[-1] == "" else v.n
    marker = set()
    for a, b, mk, info, d in v.fences:
        marker.add(a)
        if d != 0:
            continue
        if a == 1 or _blank(v, a - 1):
            must_not.add(a)
        elif not _quasi_blank(v, a - 1):
            must.add(a)
        closed = b in v.fence_marker_lines and b != a
        if closed:
            marker.add(b)
            if b >= last_real or _blank(v, b + 1):
                must_not.add(b)
            elif not _quasi_blank(v, b + 1):
                must.add(b)
    amb = must & must_not
    must -= amb
    must_not -= amb
    must_not |= all_lines(v) - v.code_lines
    return must, must_not


def md032(v, cfg):
    """list not preceded by a blank line (top-level lists; start of document exempt); the 'followed by' side is
    judged only as MUST-NOT-free (lazy continuation makes the last line of a list a matter of structure)"""
    must, must_not = set(), set()
    list_lines = set()
    for typ, a, b in v.top_blocks:
        if typ in ("bullet_list_open", "ordered_list_open"):
            list_lines.update(range(a, b + 1))
            list_lines.update((a - 1, b + 1))  # the lines adjacent to a list: which of them carries the report is not documented
            prev_is_list = any(t2 in ("bullet_list_open", "ordered_list_open") and b2 == a - 1 for t2, a2, b2 in v.top_blocks)
            if a == 1 or _blank(v, a - 1) or _quasi_blank(v, a - 1) or prev_is_list:
                pass  # (a list directly after another list: not documented)
            else:
                must.add(a)
    for ln, lvl, mk, end in v.li_items:
        list_lines.update(range(ln - 1, end + 2))
    must_not |= all_lines(v) - list_lines - must
    return must, must_not


def md029(v, cfg):
    """ordered list item numbering; styles one_or_ordered (default), one, zero, ordered; allow_extended_start_values lets an
    ordered list start at any number; top-level lists, only the first offending item of a list is a MUST"""
    style = cfg.get("style", "one_or_ordered")
    ext = bool(cfg.get("allow_extended_start_values", False))
    must, must_not = set(), set()
    for items in v.ol_lists:
        nums = []
        for ln, info, end in items:
            try:
                nums.append(int(info))
            except ValueError:
                nums = None
                break
        if not nums:
            continue
        lines = [ln for ln, _, _ in items]
        first = nums[0]
        if style in ("one", "zero"):
            want = 1 if style == "one" else 0
            offender = False
            for ln, x in zip(lines, nums):
                if x == want:
                    must_not.add(ln)
                elif not offender:
                    must.add(ln)  # (whether the items after the first offender are reported as well is not judged)
                    offender = True
            continue
        if style == "ordered":
            if first not in (0, 1) and not ext:
                must.add(lines[0])
                continue
            ordered = all(x == first + i for i, x in enumerate(nums))
            if ordered:
                must_not.update(lines)
            else:
                k = next(i for i, x in enumerate(nums) if x != first + i)
                must_not.update(lines[:k])
                must.add(lines[k])
            continue
        # one_or_ordered
        if first not in (0, 1):
            if not ext:
                must.add(lines[0])
                continue
            ordered = all(x == first + i for i, x in enumerate(nums))
            if ordered:
                must_not.update(lines)
            else:
                k = next(i for i, x in enumerate(nums) if x != first + i)
                must_not.update(lines[:k])
                must.add(lines[k])
            continue
        all_ones = all(x == first for x in nums) and first == 1
        ordered = all(x == first + i for i, x in enumerate(nums))
        if all_ones or ordered:
            must_not.update(lines)
            continue
        for i, x in enumerate(nums):
            if i and x != 1 and x != first + i and x != first:
                must.add(lines[i])
    multi = {ln for ln, c in collections_counter(ln for ln, *_ in v.li_items).items() if c > 1}
    must -= multi
    must_not -= multi
    must_not |= all_lines(v) - {ln for ln, *_ in v.li_items}
    return must, must_not


def md030(v, cfg):
    """spaces between list marker and text differ from 1 (default); top-level single-line items"""
    must, must_not = set(), set()
    item_lines = {ln for ln, *_ in v.li_items}
    per_line = collections_counter(ln for ln, *_ in v.li_items)
    for ln, lvl, mk, end in v.li_items:
        if lvl != 1 or per_line[ln] != 1 or end != ln:
            continue
        m = re.match(r"^ {0,3}(?:[-+*]|\d{1,9}[.)])( *)(\S?)", v.line(ln))
        if not m or not m.group(2):
            continue
        k = len(m.group(1))
        want = cfg.get("ul_single", 1) if mk in "-+*" else cfg.get("ol_single", 1)
        if k == want:
            must_not.add(ln)
        elif 1 <= k <= 4:
            must.add(ln)
    must_not |= all_lines(v) - item_lines
    return must, must_not


# ---------------------------------------------------------------------------------------------- second batch
# A MUST set may also contain frozensets: "a report on at least one of these lines" (used where the
# documentation states the trigger but not which line carries the report).
def _single_line_paras(v, top_only=False):
    """(line, depth, children) of paragraphs that occupy exactly one source line"""
    out = []
    toks = v.tokens
    depth = 0
    for i, t in enumerate(toks):
        if t.type in ("blockquote_open", "bullet_list_open", "ordered_list_open"):
            depth += 1
        elif t.type in ("blockquote_close", "bullet_list_close", "ordered_list_close"):
            depth -= 1
        elif t.type == "paragraph_open" and t.map and t.map[1] - t.map[0] == 1:
            if top_only and depth:
                continue
            inline = toks[i + 1]
            out.append((t.map[0] + 1, depth, [c for c in (inline.children or []) if not (c.type == "text" and c.content == "")]))
    return out


_PLAIN = re.compile(r"[A-Za-z0-9 ]+")


def md012(v, cfg):
    """more than `maximum` (default 1) consecutive blank lines between two top-level blocks, outside code / HTML blocks"""
    mx = cfg.get("maximum", 1)
    must, must_not = set(), set()
    last_real = v.n - 1 if v.lines[-1] == "" else v.n
    special = set(v.code_lines)
    for a, b, d in v.html_blocks:
        special.update(range(a, b + 1))
    container_lines = set()
    for typ, a, b in v.top_blocks:
        if typ in ("blockquote_open", "bullet_list_open", "ordered_list_open"):
            container_lines.update(range(a, b + 2))
    ln = 1
    near = set()
    while ln <= last_real:
        if v.line(ln).strip(" \t") == "":
            s = ln
            while ln <= last_real and v.line(ln).strip(" \t") == "":
                ln += 1
            e = ln - 1  # run s..e of empty lines
            run = set(range(s, e + 1))
            near |= run | {s - 1, e + 1}
            if s == 1 or e >= last_real:
                continue  # leading / trailing blank lines: not documented
            if run & special or (run | {s - 1, e + 1}) & container_lines or (s - 1) in special or (e + 1) in special:
                continue
            if e - s + 1 > mx:
                must.add(frozenset(run | {e + 1}))
            else:
                must_not |= run
        else:
            ln += 1
    def qb(l):
        return 1 <= l <= v.n and v.line(l).strip(" >\t") == ""

    must_not |= {l for l in all_lines(v) if l not in near and not qb(l) and not qb(l - 1)}
    return must, must_not


def md020(v, cfg):
    """paragraph line that looks like a closed ATX heading with no space inside the hashes on either side"""
    must, must_not = set(), set()
    for ln, d, ch in _single_line_paras(v, top_only=True):
        line = v.line(ln)
        m = re.match(r"^ {0,3}(#{1,6})([A-Za-z0-9][A-Za-z0-9 ]*?)( *)(#+)$", line)
        if m:
            must.add(ln)  # no space after the opening hashes (whatever the closing side looks like)
    for lv, a, b, mk, tx, d, _ in v.headings:
        if d != 0 or not mk.startswith("#") or b != a:
            continue
        line = v.line(a)
        if re.match(r"^ {0,3}#{1,6} +[A-Za-z0-9 ]*[A-Za-z0-9]#+$", line):
            must.add(a)  # "# Heading 1#": no space before the closing hashes
        elif re.match(r"^ {0,3}#{1,6} +[A-Za-z0-9]([A-Za-z0-9 ]*[A-Za-z0-9])? +#+ *$", line):
            must_not.add(a)
    must_not |= {ln for ln in all_lines(v) if "#" not in v.line(ln)}
    return must, must_not


def md021(v, cfg):
    """closed ATX heading with more than one space after the opening or before the closing hashes"""
    must, must_not = set(), set()
    for lv, a, b, mk, tx, d, _ in v.headings:
        if d != 0 or not mk.startswith("#") or b != a:
            continue
        line = v.line(a)
        if "\t" in line:
            continue
        m = re.match(r"^ {0,3}(#{1,6})( +)([A-Za-z0-9](?:[A-Za-z0-9 ]*[A-Za-z0-9])?)( +)(#+) *$", line)
        if not m:
            continue
        if len(m.group(2)) > 1 or len(m.group(4)) > 1:
            must.add(a)
        else:
            must_not.add(a)
    must_not |= all_lines(v) - v.heading_lines
    return must, must_not


def md027(v, cfg):
    """more than one space after the block quote character at the start of a paragraph line (top-level quotes)"""
    must, must_not = set(), set()
    if ">" not in v.src:
        return set(), all_lines(v)
    toks = v.tokens
    stack = []
    must_not_first = set()
    for i, t in enumerate(toks):
        if t.type.endswith("_open") and t.type in ("blockquote_open", "bullet_list_open", "ordered_list_open", "list_item_open"):
            stack.append(t.type)
        elif t.type in ("blockquote_close", "bullet_list_close", "ordered_list_close", "list_item_close"):
            stack.pop()
        elif t.type == "paragraph_open" and stack == ["blockquote_open"] and t.map:
            first = t.map[0] + 1
            line = v.line(first)
            if re.match(r"^> {2,3}[A-Za-z]", line):
                must.add(first)
            elif re.match(r"^> ?[A-Za-z]", line) and "[" not in line:
                must_not.add(first)
                must_not_first.add(first)
    in_quote = set()
    for t in toks:
        if t.type == "blockquote_open" and t.map:
            in_quote.update(range(t.map[0] + 1, t.map[1] + 2))
    must_not |= {ln for ln in all_lines(v) if ">" not in v.line(ln) and ln not in in_quote}
    must_not -= {ln for ln in must_not if ln in in_quote and ln not in must_not_first}
    return must, must_not


def md028(v, cfg):
    """one or more blank lines between two block quotes (top level)"""
    must, must_not = set(), set()
    quote_lines = [ln for ln in all_lines(v) if ">" in v.line(ln)]
    if len(quote_lines) < 2 or not any(v.line(ln).strip(" >\t") == "" for ln in range(min(quote_lines), max(quote_lines))):
        return set(), all_lines(v)
    tb = v.top_blocks
    involved = set()
    for (t1, a1, b1), (t2, a2, b2) in zip(tb, tb[1:]):
        if t1 == "blockquote_open" and t2 == "blockquote_open":
            between = list(range(b1 + 1, a2))
            if between and all(v.line(ln).strip() == "" for ln in between) and v.line(b1).lstrip(" ").startswith(">"):
                must.add(frozenset(between + [a2]))
                involved.update(between + [a2])
    if all(t in ("blockquote_open", "paragraph_open", "heading_open", "hr") for t, a, b in tb):
        inner_blank = False
        for t, a, b in tb:
            if t == "blockquote_open" and any(v.line(ln).strip(" >\t") == "" for ln in range(a, b + 1)):
                inner_blank = True  # a blank line inside one quote token (lazy continuation cases): undecided
        if not inner_blank:
            must_not |= {ln for ln in all_lines(v) if ln not in involved and v.line(ln).strip() != ""}
    return must, must_not


_OPEN_TAG = re.compile(r"<([A-Za-z][A-Za-z0-9-]*)(?=[\s/>])")


def md033(v, cfg):
    """raw HTML (block or inline) whose tag name is not in allowed_elements"""
    allowed = {x.strip().lower() for x in cfg.get("allowed_elements", "!--,![CDATA[,!DOCTYPE").split(",")}
    must, must_not = set(), set()
    first_block_line = v.top_blocks[0][1] if v.top_blocks else None
    for a, b, d in v.html_blocks:
        line = v.line(a)
        m = re.match(r"^[ >]*<([A-Za-z][A-Za-z0-9-]*)(?=[\s/>])", line)
        if not m:
            continue
        name = m.group(1).lower()
        if name == "h1" and a == first_block_line:
            continue  # allow_first_image_element territory
        if name not in allowed and m.group(1) not in cfg.get("allowed_elements", ""):
            must.add(a)
        elif name in allowed and m.group(1) in cfg.get("allowed_elements", "").split(",") and line.count("<") == 1 and d == 0:
            must_not.add(a)
    for ln, d, ch in _single_line_paras(v):
        tags = [c.content for c in ch if c.type == "html_inline"]
        if not tags:
            continue
        names = [_OPEN_TAG.match(t) for t in tags]
        opens = [m.group(1) for m in names if m]
        if any(o.lower() not in allowed for o in opens):
            must.add(ln)
        elif opens and len(opens) == len(tags) and all(o in cfg.get("allowed_elements", "").split(",") for o in opens):
            must_not.add(ln)
    must_not |= {ln for ln in all_lines(v) if "<" not in v.line(ln)}
    return must, must_not


_URL = re.compile(r"(?:^|(?<=\s))(?:https?|ftps?)://\S")


def md034(v, cfg):
    """bare URL (http/https/ftp/ftps + '://' + non-whitespace, preceded by whitespace or start) in paragraph or heading text"""
    must, must_not = set(), set()
    for ln, d, ch in _single_line_paras(v, top_only=True):
        if ch and all(c.type == "text" for c in ch):
            line = v.line(ln)
            if re.match(r"^ {0,3}[A-Za-z]", line) and _URL.search(line):
                must.add(ln)
    must_not |= {ln for ln in all_lines(v) if not re.search(r"(?i)(https?|ftps?):", v.line(ln))}
    return must, must_not


def md036(v, cfg):
    """single-line paragraph that consists entirely of one emphasis element whose text does not end in punctuation"""
    punct = cfg.get("punctuation", ".,;:!?。，；：？")
    must, must_not = set(), set()
    judged = set()
    for ln, d, ch in _single_line_paras(v):
        types = [c.type for c in ch]
        if types in (["em_open", "text", "em_close"], ["strong_open", "text", "strong_close"]):
            txt = ch[1].content
            if not txt.strip() or txt != txt.strip():
                continue
            judged.add(ln)
            if txt[-1] in punct:
                must_not.add(ln)
            elif _PLAIN.fullmatch(txt) and d == 0 and re.match(r"^[*_]", v.line(ln)):
                must.add(ln)
        elif types and types[0] not in ("em_open", "strong_open") and all(t in ("text", "em_open", "em_close", "strong_open", "strong_close", "code_inline", "softbreak") for t in types):
            must_not.add(ln)
    must_not |= {ln for ln in all_lines(v) if "*" not in v.line(ln) and "_" not in v.line(ln)}
    return must, must_not


def md037(v, cfg):
    """a matched pair of emphasis marker runs in one paragraph with whitespace on the inner side of either run"""
    must, must_not = set(), set()
    for ln, d, ch in _single_line_paras(v, top_only=True):
        line = v.line(ln)
        if not ch or not all(c.type == "text" for c in ch):
            continue
        m = re.fullmatch(r" {0,3}((?:[A-Za-z0-9]+ )+)(\*{1,2}|_{1,2})( ?)([A-Za-z0-9]+(?: [A-Za-z0-9]+)*)( ?)\2((?: [A-Za-z0-9]+)+)", line)
        if m and (m.group(3) or m.group(5)):
            must.add(ln)
    must_not |= {ln for ln in all_lines(v) if "*" not in v.line(ln) and "_" not in v.line(ln)}
    return must, must_not


def md038(v, cfg):
    """code span whose text starts or ends with an unbalanced space, or with more than one space"""
    must, must_not = set(), set()
    for ln, d, ch in _single_line_paras(v, top_only=True):
        line = v.line(ln)
        if sum(1 for c in ch if c.type == "code_inline") != 1 or any(c.type not in ("text", "code_inline") for c in ch):
            continue
        m = re.fullmatch(r"[^`\\]*(?<!`)`([^`]+)`(?!`)[^`\\]*", line)
        if not m:
            continue
        raw = m.group(1)
        if not raw.strip(" ") or "\t" in raw:
            continue
        lead = len(raw) - len(raw.lstrip(" "))
        trail = len(raw) - len(raw.rstrip(" "))
        if lead == 0 and trail == 0 or lead == 1 and trail == 1:
            must_not.add(ln)
        elif (lead == 0) != (trail == 0) or lead > 1 or trail > 1:
            must.add(ln)
    must_not |= {ln for ln in all_lines(v) if "`" not in v.line(ln)}
    return must, must_not


def md039(v, cfg):
    """inline link / image whose label starts or ends with whitespace"""
    must, must_not = set(), set()
    for ln, d, ch in _single_line_paras(v, top_only=True):
        line = v.line(ln)
        labels = re.findall(r"!?\[([^\[\]\\`<*_]*)\]\(([^()\s\\<]*)\)", line)
        n_links = sum(1 for c in ch if c.type in ("link_open", "image"))
        if not labels or n_links != len(labels) or line.count("[") != len(labels):
            continue
        if any(l.strip() and l != l.strip() for l, _ in labels):
            must.add(ln)
        elif all(l and l == l.strip() for l, _ in labels):
            must_not.add(ln)
    must_not |= {ln for ln in all_lines(v) if "[" not in v.line(ln)}
    return must, must_not


def _heading_style(v, h):
    lv, a, b, mk, tx, d, _ = h
    if not mk.startswith("#"):
        return "setext"
    line = v.line(b).rstrip()
    if line.endswith("#") and not tx.rstrip().endswith("#") and tx.strip():
        return "atx_closed"
    if tx.strip() and not tx.rstrip().endswith("#"):
        return "atx"
    return None


def md003(v, cfg):
    """heading style differs from the configured one / from the first heading's (consistent); allow-setext-update
    (documented for style=consistent only) lets an unclosed ATX heading of level 3+ switch setext to setext_with_atx"""
    style = cfg.get("style", "consistent")
    upd = bool(cfg.get("allow-setext-update", False)) and style == "consistent"
    must, must_not = set(), set()
    hs = [(h, _heading_style(v, h)) for h in v.headings]
    want = style
    for idx, (h, st) in enumerate(hs):
        lv, a, b = h[0], h[1], h[2]
        rng = frozenset(range(a, b + 1))
        if st is None:
            if style == "consistent" and idx == 0:
                break
            continue
        if style == "consistent" and want == "consistent":
            want = st
            must_not |= rng
            continue
        if want in ("atx", "atx_closed", "setext"):
            if want == "setext" and st != "setext" and lv >= 3 and upd:
                if st == "atx":
                    want = "setext_with_atx"
                    must_not |= rng
                    continue
                break  # a closed ATX heading of level 3+ with the update allowed: not documented; stop judging
            if st == want:
                must_not |= rng
            else:
                must.add(rng if len(rng) > 1 else a)
        elif want in ("setext_with_atx", "setext_with_atx_closed"):
            exp = "setext" if lv <= 2 else want[len("setext_with_"):]
            if st == exp:
                must_not |= rng
            else:
                must.add(rng if len(rng) > 1 else a)
    must_not |= all_lines(v) - v.heading_lines
    return must, must_not


def md014(v, cfg):
    """every line of a code block begins with '$' (after leading spaces)"""
    must, must_not = set(), set()
    blocks = [(a + 1, b - 1 if b in v.fence_marker_lines and b != a else b, d) for a, b, mk, info, d in v.fences] + [(a, b, d) for a, b, d in v.code_blocks]
    for a, b, d in blocks:
        if d != 0 or b < a:
            continue
        content = [v.line(ln) for ln in range(a, b + 1)]
        if any(not c.strip() for c in content):
            continue
        if all(c.lstrip(" ").startswith("$") for c in content):
            if all(re.match(r"^ *\$ [a-z]", c) for c in content):
                must.add(frozenset(range(a, b + 1)))
        elif not any(c.lstrip(" ").startswith("$") for c in content):
            must_not |= set(range(a, b + 1))
    must_not |= all_lines(v) - v.code_lines
    return must, must_not


def md044(v, cfg):
    """a standalone occurrence of a configured proper name with the wrong capitalisation"""
    names = [x.strip() for x in cfg.get("names", "").split(",") if x.strip()]
    if not names:
        return set(), all_lines(v)
    must, must_not = set(), set()
    code_blocks = cfg.get("code_blocks", True)
    para_lines = {ln for ln, d, ch in _single_line_paras(v, top_only=True) if ch and all(c.type == "text" for c in ch)}
    for ln in sorted(all_lines(v)):
        line = v.line(ln)
        present = False
        wrong = False
        for nm in names:
            for m in re.finditer(re.escape(nm), line, re.I):
                present = True
                before = line[m.start() - 1] if m.start() else " "
                after = line[m.end()] if m.end() < len(line) else " "
                if m.group(0) != nm and before in " " and after in " .,":
                    wrong = True
        if not present:
            must_not.add(ln)
        elif wrong and (ln in para_lines or (code_blocks and ln in v.code_content_lines and not any(a == ln for a, *_ in v.fences))):
            must.add(ln)
        elif ln in v.code_content_lines and not code_blocks:
            must_not.add(ln)
    return must, must_not


def md043(v, cfg):
    """the document's headings do not match the required_headings pattern (the reporting line is not documented:
    any line of the document satisfies a MUST)"""
    req = [x.strip() for x in cfg.get("headings", "").split(",") if x.strip()]
    if not req:
        return set(), all_lines(v)
    actual = []
    for lv, a, b, mk, tx, d, _ in v.headings:
        if not _PLAIN.fullmatch(tx) or tx != tx.strip() or d != 0:
            return set(), set()
        if mk.startswith("#") and v.line(a).rstrip().endswith("#"):
            return set(), set()
        actual.append("#" * lv + " " + tx)

    def match(i, j):
        if i == len(req):
            return j == len(actual)
        if req[i] == "*":
            return any(match(i + 1, k) for k in range(j, len(actual) + 1))
        return j < len(actual) and actual[j] == req[i] and match(i + 1, j + 1)

    if match(0, 0):
        return set(), all_lines(v)
    return {frozenset(range(1, v.n + 2))}, set()


def _list_tree(v):
    """[(kind 'ul'|'ol', parent chain of kinds incl. 'bq', [(line, indent, markup) per item])] for every list, from the
    independent parser's tokens; indent = number of leading spaces of the item's line (None if a tab or a quote marker
    precedes the list marker)"""
    out = []
    stack = []  # entries: ("bq",) | ("ul"|"ol", record)
    for t in v.tokens:
        if t.type == "blockquote_open":
            stack.append(("bq", None))
        elif t.type in ("bullet_list_open", "ordered_list_open"):
            rec = {"kind": "ul" if t.type[0] == "b" else "ol", "chain": [k for k, _ in stack], "items": [], "parent_item": None}
            for k, r in reversed(stack):
                if k in ("ul", "ol") and r["items"]:
                    rec["parent_item"] = r["items"][-1]
                    break
            out.append(rec)
            stack.append((rec["kind"], rec))
        elif t.type in ("blockquote_close", "bullet_list_close", "ordered_list_close"):
            stack.pop()
        elif t.type == "list_item_open" and t.map and stack and stack[-1][0] in ("ul", "ol"):
            ln = t.map[0] + 1
            line = v.line(ln)
            m = re.match(r"^( *)(?:[-+*]|\d{1,9}[.)])", line)
            stack[-1][1]["items"].append((ln, len(m.group(1)) if m else None, t.markup, t.info))
    return out


def md007(v, cfg):
    """unordered list items that do not start at base + indent * (depth - 1); judged: top-level bullet lists (base 0) and
    bullet lists directly inside an item of a top-level bullet list whose marker is followed by one space"""
    indent = cfg.get("indent", 2)
    if cfg.get("start_indented") or "\t" in v.src:
        return set(), set()
    must, must_not = set(), set()
    per_line = collections_counter(ln for ln, *_ in v.li_items)
    judged = set()
    for rec in _list_tree(v):
        if rec["kind"] != "ul":
            continue
        if rec["chain"] == []:
            want = 0
        elif rec["chain"] == ["ul"] and rec["parent_item"] is not None:
            pln, pind, _, _ = rec["parent_item"]
            if pind != 0 or not re.match(r"^[-+*] \S", v.line(pln)):
                continue
            want = indent
        else:
            continue
        for ln, ind, mk, info in rec["items"]:
            if ind is None or per_line[ln] != 1:
                continue
            if rec["chain"] == ["ul"] and not (2 <= ind <= 5):
                continue
            judged.add(ln)
            if ind == want:
                must_not.add(ln)
            elif ind > want:
                must.add(ln)  # (an item indented LESS than a non-default `indent` asks for is not judged: the examples only show too much)
    must_not |= all_lines(v) - {ln for ln, *_ in v.li_items}
    return must, must_not


def md005(v, cfg):
    """items of one list start at different indentations; judged: top-level lists without nesting (bullets, and ordered
    lists whose numbers all have the same width, where left and right alignment coincide)"""
    must, must_not = set(), set()
    per_line = collections_counter(ln for ln, *_ in v.li_items)
    tree = _list_tree(v)
    nested_parents = {id(r["parent_item"]) for r in tree if r["parent_item"] is not None}
    for rec in tree:
        if rec["chain"] != [] or len(rec["items"]) < 2:
            continue
        if any(id(it) in nested_parents for it in rec["items"]) or any(ind is None or per_line[ln] != 1 for ln, ind, _, _ in rec["items"]):
            continue
        if rec["kind"] == "ol" and len({len(info) for _, _, _, info in rec["items"]}) != 1:
            continue
        base = rec["items"][0][1]
        if base != 0 and any(ind != base for _, ind, _, _ in rec["items"]):
            continue  # an indented first item followed by less indented ones: which item is "misaligned" is not documented
        # a MUST only where every marker is followed by exactly one space (with wider markers the content column, not the
        # marker column, may be what "indentation" means); a report on an item that starts where the first one does is
        # spurious in any case
        narrow = all(re.match(r"^ *(?:[-+*]|\d{1,9}[.)]) \S", v.line(ln)) for ln, _, _, _ in rec["items"])
        for ln, ind, mk, info in rec["items"][1:]:
            if ind == base:
                must_not.add(ln)
            elif narrow:
                must.add(ln)
        must_not.add(rec["items"][0][0])
    must_not |= all_lines(v) - {ln for ln, *_ in v.li_items}
    return must, must_not


def collections_counter(it):
    import collections

    return collections.Counter(it)


# rule id -> (reference, [configuration variants]); the first variant is the default configuration
REFS = {
    "md001": (md001, [{}]),
    "md004": (md004, [{}, {"style": "dash"}, {"style": "asterisk"}, {"style": "plus"}]),
    "md009": (md009, [{}, {"strict": True}, {"br_spaces": 3}, {"br_spaces": 0}]),
    "md010": (md010, [{}, {"code_blocks": False}]),
    "md013": (md013, [{}, {"line_length": 20, "heading_line_length": 12, "code_block_line_length": 10}, {"strict": True}, {"strict": True, "line_length": 30, "heading_line_length": 10, "code_block_line_length": 30},
                      {"strict": True, "line_length": 12, "heading_line_length": 30, "code_block_line_length": 30},
                      {"strict": True, "line_length": 30, "heading_line_length": 30, "code_block_line_length": 8},
                      {"strict": True, "line_length": 10, "headings": False, "code_blocks": False},
                      {"strict": True, "heading_line_length": 12, "code_blocks": False}, {"strict": True, "code_block_line_length": 8, "headings": False}]),
    "md018": (md018, [{}]),
    "md019": (md019, [{}]),
    "md022": (md022, [{}, {"lines_above": 2}, {"lines_below": 2}, {"lines_above": 0, "lines_below": 0}]),
    "md023": (md023, [{}]),
    "md024": (md024, [{}, {"siblings_only": True}, {"allow_different_nesting": True}]),
    "md025": (md025, [{}, {"level": 2}]),
    "md026": (md026, [{}, {"punctuation": "?x"}]),
    "md029": (md029, [{}, {"style": "one"}, {"style": "zero"}, {"style": "ordered"}, {"allow_extended_start_values": True}, {"style": "ordered", "allow_extended_start_values": True}]),
    "md030": (md030, [{}, {"ul_single": 2}, {"ol_single": 2}, {"ul_single": 3, "ol_single": 2, "ul_multi": 3, "ol_multi": 2}]),
    "md031": (md031, [{}]),
    "md032": (md032, [{}]),
    "md035": (md035, [{}, {"style": "---"}, {"style": "***"}]),
    "md040": (md040, [{}]),
    "md041": (md041, [{}]),
    "md042": (md042, [{}]),
    "md045": (md045, [{}]),
    "md046": (md046, [{}, {"style": "fenced"}, {"style": "indented"}]),
    "md047": (md047, [{}]),
    "md048": (md048, [{}, {"style": "backtick"}, {"style": "tilde"}]),
    # second batch
    "md003": (md003, [{}, {"style": "atx"}, {"style": "atx_closed"}, {"style": "setext"}, {"style": "setext_with_atx"}, {"style": "setext_with_atx_closed"},
                      {"allow-setext-update": True}, {"style": "setext", "allow-setext-update": True}]),
    "md005": (md005, [{}]),
    "md007": (md007, [{}, {"indent": 4}]),
    "md012": (md012, [{}, {"maximum": 2}]),
    "md014": (md014, [{}]),
    "md020": (md020, [{}]),
    "md021": (md021, [{}]),
    "md027": (md027, [{}]),
    "md028": (md028, [{}]),
    "md033": (md033, [{}, {"allowed_elements": "b,div"}]),
    "md034": (md034, [{}]),
    "md036": (md036, [{}, {"punctuation": ".x"}]),
    "md037": (md037, [{}]),
    "md038": (md038, [{}]),
    "md039": (md039, [{}]),
    # (the documentation's table calls the value `required_headings`; `plugins info md043` and the code call it `headings`)
    "md043": (md043, [{"headings": "# a,## b"}, {"headings": "# a,*"}, {"headings": "*,## b"}]),
    "md044": (md044, [{"names": "ParaGraph,ThIs"}, {"names": "ParaGraph,ThIs", "code_blocks": False}]),
}
