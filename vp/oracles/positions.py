"""C05 oracle: token positions are true.

Three strengths (DESIGN 4/C05):
 (a) range : 1 <= line <= #lines, 1 <= column <= len(line)+1
 (b) order : container / leaf / li start tokens in non-decreasing line order
 (c) anchor: the source text at (line, column) is the element's own opening text, for the
             kinds where the statement names one.
Tabs: a column is accepted if either the raw character index or the tab-expanded visual
column satisfies the clause (the statement does not pick one)."""

from .tokens_wf import CONTAINER, LEAF

ANCHOR = {
    "atx": "#",
    "tbreak": "-_*",
    "fcode-block": "`~",
    "block-quote": ">",
    "ulist": "-+*",
    "olist": "0123456789",
    "link-ref-def": "[",
    "link": "[",
    "image": "!",
    "emphasis": "*_~",
    "end-emphasis": "*_~",
    "icode-span": "`",
    "raw-html": "<",
    "uri-autolink": "<",
    "email-autolink": "<",
}


def _chars_at(line, col):
    """Characters a 1-based column may denote: raw index, and tab-expanded visual column."""
    out = []
    if 1 <= col <= len(line):
        out.append(line[col - 1])
    if "\t" in line:
        vis = 0
        for ch in line:
            w = (4 - vis % 4) if ch == "\t" else 1
            if vis + 1 <= col <= vis + w:
                out.append(ch)
                break
            vis += w
    return out


def _width(line):
    if "\t" not in line:
        return len(line)
    vis = 0
    for ch in line:
        vis += (4 - vis % 4) if ch == "\t" else 1
    return max(vis, len(line))


class _Fails(set):
    """Set of failure classes that also remembers (class, line, column) of every failing token."""

    def __init__(self):
        super().__init__()
        self.fine = []
        self.cur = (0, 0)

    def add(self, item):
        self.fine.append((item, self.cur[0], self.cur[1]))
        super().add(item)


def check_detailed(src, tokens):
    """-> (sorted tuple of failure classes, list of (class, line, column) per failing token)"""
    res = check(src, tokens, _want_fine=True)
    return res


def check(src, tokens, _want_fine=False):
    """Return a sorted tuple of failure classes (empty = property holds on this stream)."""
    lines = src.split("\n")
    nlines = len(lines)
    fails = _Fails()
    last_line = 0
    list_stack = []
    cont_depth = 0  # number of open containers (for classifying the known systematic shape)
    open_containers = []
    for t in tokens:
        name = t.token_name
        if name in ("end-of-stream", "pragma", "front-matter"):
            continue
        if t.is_end_token:
            if name in ("end-ulist", "end-olist"):
                if list_stack:
                    list_stack.pop()
            if name in ("end-ulist", "end-olist", "end-block-quote") and open_containers:
                open_containers.pop()
            if name != "end-emphasis":
                continue
        ln, col = t.line_number, t.column_number
        if ln == 0 and col == 0:
            continue
        fails.cur = (ln, col)
        if name in ("ulist", "olist"):
            list_stack.append(name)
        if name in ("ulist", "olist", "block-quote"):
            open_containers.append((name, ln))
        in_cont = bool(open_containers)
        started_line = open_containers[-1][1] if open_containers else 0
        # classify "inline token on a later line than the innermost container opened" -> the
        # known systematic shape gets its own class so anything else stays visible
        is_block = name in CONTAINER or name in LEAF
        shape = ""
        if not is_block and in_cont and any(c[0] in ("ulist", "olist") for c in open_containers):
            shape = ":inlist"
        # (a) range
        if not (1 <= ln <= nlines):
            fails.add(f"line-range:{name}{shape}")
            continue
        line = lines[ln - 1]
        if not (1 <= col <= _width(line) + 1):
            fails.add(f"col-range:{name}{shape}")
            continue
        # (b) order
        if is_block:
            if ln < last_line:
                fails.add(f"order:{name}")
            last_line = max(last_line, ln)
        # (c) anchor
        want = ANCHOR.get(name)
        if name == "li":
            # a new item's own opening text is a list marker; WHICH kind of marker may continue
            # the list is structure (C03), not position
            want = "-+*0123456789"
        if want is not None:
            got = _chars_at(line, col)
            if not any(ch in want for ch in got):
                fails.add(f"anchor:{name}{shape}")
        elif name == "para":
            got = _chars_at(line, col)
            if not any(ch not in " \t" for ch in got):
                fails.add(f"anchor:para{shape}")
        elif name == "setext":
            got = _chars_at(line, col)
            if not any(ch in "=-" for ch in got):
                fails.add("anchor:setext-underline")
            oln = getattr(t, "original_line_number", 0)
            ocol = getattr(t, "original_column_number", 0)
            if not (1 <= oln <= nlines) or oln > ln:
                fails.add("line-range:setext-text")
            else:
                got = _chars_at(lines[oln - 1], ocol)
                if not any(ch not in " \t" for ch in got):
                    fails.add("anchor:setext-text")
    if _want_fine:
        return tuple(sorted(fails)), fails.fine
    return tuple(sorted(fails))


def nontrivial(tokens):
    depth = 0
    for t in tokens:
        name = t.token_name
        if name in ("ulist", "olist", "block-quote"):
            depth += 1
        elif name in ("end-ulist", "end-olist", "end-block-quote"):
            depth -= 1
        elif not t.is_end_token and name not in ("end-of-stream", "pragma"):
            if t.line_number > 1 or (depth > 0 and t.column_number > 1):
                return True
    return False
