"""C04 oracle: an independent push-down automaton over a token list.

Written from the property statement (not from pymarkdown/tokens/stack_token.py):
 * each end token closes the most recently opened, still-open start token and refers to it;
 * nothing is left open at the end;
 * containers hold containers and leaf blocks, leaf blocks hold only inline tokens,
   a new-list-item token appears only directly inside its list.
The class table below is this oracle's own; it is additionally cross-checked against what the
token says about itself (is_container / is_leaf)."""

CONTAINER = {"block-quote", "ulist", "olist", "li"}
LEAF = {"para", "BLANK", "atx", "setext", "tbreak", "link-ref-def", "html-block", "fcode-block", "icode-block"}
INLINE = {"text", "icode-span", "hard-break", "uri-autolink", "email-autolink", "raw-html", "emphasis", "link", "image", "task-list"}
SPECIAL = {"pragma", "end-of-stream", "front-matter"}
INLINE_SCOPES = {"emphasis", "link"}
LISTS = {"ulist", "olist"}


def check(tokens):
    """Return None if well-formed, else a short failure class string (stable, no positions)."""
    stack = []
    n = len(tokens)
    for i, t in enumerate(tokens):
        name = t.token_name
        if name == "end-of-stream":
            if not (i == n - 1 or (i == n - 2 and tokens[-1].token_name == "pragma")):
                return "eos-not-last"
            if stack:
                return "eos-with-open:" + stack[-1].token_name
            continue
        if name == "pragma":
            if i != n - 1:
                return "pragma-not-last"
            continue
        if name == "front-matter":
            if i != 0:
                return "front-matter-not-first"
            continue
        if t.is_end_token:
            if not stack:
                return "end-without-open:" + name
            top = stack[-1]
            start = getattr(t, "start_markdown_token", None)
            if start is not top:
                return f"end-mismatch:{name}-closes-{top.token_name}"
            if getattr(t, "type_name", None) != top.token_name or name != "end-" + top.token_name:
                return f"end-name-mismatch:{name}/{top.token_name}"
            stack.pop()
            continue
        # start or stand-alone token: class discipline
        if name in CONTAINER:
            cls = "c"
        elif name in LEAF:
            cls = "l"
        elif name in INLINE:
            cls = "i"
        else:
            return "unknown-token:" + name
        if (cls == "c") != bool(t.is_container) or (cls == "l") != bool(t.is_leaf):
            return "class-flag-mismatch:" + name
        top = stack[-1].token_name if stack else None
        if cls in ("c", "l"):
            if top is not None and top not in CONTAINER:
                return f"block-inside-{'leaf' if top in LEAF else 'inline'}:{name}-in-{top}"
            if name == "li":
                if top not in LISTS:
                    return f"li-not-directly-in-list:{top}"
        else:
            if top is None or top in CONTAINER:
                return f"inline-outside-leaf:{name}-in-{top}"
            if top in INLINE_SCOPES:
                # the scope itself must sit (transitively) in a leaf
                j = len(stack) - 1
                while j >= 0 and stack[j].token_name in INLINE_SCOPES:
                    j -= 1
                if j < 0 or stack[j].token_name not in LEAF:
                    return "inline-scope-outside-leaf"
        if t.requires_end_token and name != "li":
            stack.append(t)
    if stack:
        return "left-open:" + stack[-1].token_name
    return None


def depth_classes(tokens):
    """Non-triviality: does the stream open >= 2 nested scopes of different classes?"""
    stack, best = [], 0
    for t in tokens:
        name = t.token_name
        if name in ("end-of-stream", "pragma", "front-matter"):
            continue
        if t.is_end_token:
            if stack:
                stack.pop()
        elif t.requires_end_token and name != "li":
            stack.append("c" if name in CONTAINER else "l" if name in LEAF else "i")
            best = max(best, len(set(stack)) if len(stack) >= 2 else 0)
    return best >= 2
