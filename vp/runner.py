"""Run context shared by all checks: counters, known-finding accounting, violations, evidence."""
import collections
import hashlib
import json
import os
import sys
import time

from . import VERIF_DIR
from .findings import Known


def h64(s):
    if isinstance(s, str):
        s = s.encode("utf-8", "surrogatepass")
    return int.from_bytes(hashlib.blake2b(s, digest_size=8).digest(), "big")


class Run:
    def __init__(self, prop, tier, seed):
        self.prop, self.tier, self.seed = prop, tier, seed
        self.t0 = time.time()
        self.known = Known(prop)
        self.evaluations = 0
        self.nt = set()
        self.nt_extra = 0
        self.samples = []
        self.labels = collections.Counter()
        self.per_universe = {}
        self.violations = []  # (sig, case dict)
        self.known_seen = collections.Counter()
        self.excluded = collections.Counter()
        self.inconclusive = 0
        self.skipped = collections.Counter()
        self.notes = []
        self.exhaustive = None
        self.extra = {}

    # ------------------------------------------------------------------ accounting
    def add_sample(self, s, cap=16):
        if len(self.samples) < cap:
            self.samples.append(s)

    def nontrivial(self, key):
        self.nt.add(key if isinstance(key, int) else h64(key))

    def violation(self, sig, case):
        self.violations.append((sig, case))

    def regressions(self, replay_fn):
        """Seconds-long replay tier: every case under regressions/<prop>/ (shrunk reproductions of
        fixed findings and of seeded defects) must satisfy the property now."""
        import glob

        n = 0
        if os.environ.get("VERIF_SKIP_REGRESSIONS"):
            return  # development aid: measure what the generators find on their own
        for path in sorted(glob.glob(os.path.join(VERIF_DIR, "regressions", self.prop, "*.json"))):
            with open(path, encoding="utf-8") as f:
                rec = json.load(f)
            for case in rec.get("cases", []):
                n += 1
                self.evaluations += 1
                self.nontrivial("regression:" + os.path.basename(path) + json.dumps(case, sort_keys=True))
                bad = replay_fn(case)
                if bad:
                    self.violation("regression:" + os.path.basename(path), dict(case, regression=os.path.basename(path), detail=str(bad)[:300]))
        self.labels["regression_cases"] = n

    # ------------------------------------------------------------------ output
    def write_replays(self):
        paths = []
        outdir = os.path.join(os.environ.get("VERIF_OUT_DIR") or os.path.join(VERIF_DIR, "out"), self.prop)
        seen = set()
        for sig, case in self.violations:
            if sig in seen:
                continue
            seen.add(sig)
            os.makedirs(outdir, exist_ok=True)
            name = hashlib.sha1(sig.encode()).hexdigest()[:10] + ".json"
            p = os.path.join(outdir, name)
            with open(p, "w", encoding="utf-8") as f:
                json.dump({"property": self.prop, "sig": sig, "case": case}, f, indent=1, ensure_ascii=True)
            paths.append((sig, p))
        return paths

    def finish(self, rule, level="exploration", assumptions=(), exhaustive=None):
        wall = time.time() - self.t0
        cov = {
            "evaluations": int(self.evaluations),
            "distinct_nontrivial": int(len(self.nt) + self.nt_extra),
            "rule": rule,
            "samples": self.samples[:20] or [{"note": "no sample recorded"}],
            "labels": dict(self.labels),
            "per_universe": self.per_universe,
            "known_findings_seen": {k: v for k, v in self.known.seen.items()},
            "excluded_undecided_disagreements": self.known.undecided_seen(),
            "excluded_by_construction": dict(self.excluded),
            "skipped_precondition": dict(self.skipped),
            "inconclusive": self.inconclusive,
            "unmatched_failures": len(self.violations),
        }
        if exhaustive is not None:
            cov["exhaustive"] = bool(exhaustive)
        cov.update(self.extra)
        ev = {
            "property_id": self.prop,
            "tier": self.tier,
            "seed": int(self.seed),
            "level": level,
            "coverage": cov,
            "assumptions": list(assumptions) + self.notes,
            "wall_s": round(wall, 2),
            "violations": len({s for s, _ in self.violations}),
        }
        evdir = os.environ.get("VERIF_EVIDENCE_DIR") or os.path.join(VERIF_DIR, "evidence")  # override: development runs against scratch trees
        os.makedirs(evdir, exist_ok=True)
        with open(os.path.join(evdir, f"{self.prop}.json"), "w", encoding="utf-8") as f:
            json.dump(ev, f, indent=1, ensure_ascii=True, default=str)
        for line in self.known.report_lines():
            print(line)
        paths = self.write_replays()
        print(
            f"[{self.prop}] tier={self.tier} seed={self.seed} evaluations={self.evaluations} "
            f"nontrivial={len(self.nt) + self.nt_extra} known_seen={sum(self.known.seen.values())} "
            f"violations={len(paths)} wall={wall:.1f}s"
        )
        for sig, p in paths:
            print(f"VIOLATION property={self.prop} replay={os.path.relpath(p, VERIF_DIR)}   # {sig}")
        sys.stdout.flush()
        return 1 if paths else 0
