"""Source text of the plugins the harness loads with --add-plugin (written into the sandbox)."""

RECORDER = '''
"""Recording rule plugin (C14): logs every life-cycle callback it receives as a JSON line."""
import json
import os

from pymarkdown.plugin_manager.plugin_details import PluginDetailsV2
from pymarkdown.plugin_manager.rule_plugin import RulePlugin

_LOG = os.environ.get("VP_REC_LOG")


def _w(rec):
    with open(_LOG, "a", encoding="utf-8") as f:
        f.write(json.dumps(rec) + "\\n")


class @CLASS@(RulePlugin):
    def get_details(self):
        return PluginDetailsV2(
            plugin_name="vp-recorder",
            plugin_id="@ID@",
            plugin_enabled_by_default=@ENABLED@,
            plugin_description="vp recorder",
            plugin_version="0.0.1",
            plugin_supports_fix=@FIX@,
            plugin_fix_level=@LEVEL@,
        )
@CALLBACKS@
'''

CB = {
    "S": '''
    def starting_new_file(self):
        _w(["S"])
''',
    "T": '''
    def next_token(self, context, token):
        _w(["T", str(token), bool(context.in_fix_mode)])
''',
    "L": '''
    def next_line(self, context, line):
        _w(["L", context.line_number, line, bool(context.in_fix_mode)])
''',
    "C": '''
    def completed_file(self, context):
        _w(["C", context.line_number])
''',
}


def module_name(prefix, tag):
    """(file name, class name) for a plugin module; the loader derives the class from the file name
    and caches modules by name, so every variant gets its own module name."""
    mod = f"vp{prefix}_{tag}"
    cls = "".join(x.capitalize() for x in mod.split("_"))
    return mod + ".py", cls


def drop_cached(prefix="vp"):
    import sys

    for k in [k for k in sys.modules if k.startswith("vprec_") or k.startswith("vpfault_") or k.startswith("vptext_")]:
        del sys.modules[k]


def recorder_source(callbacks="STLC", fix=False, level=1, enabled=True, plugin_id="AAA001", cls="Recorder"):
    body = "".join(CB[c] for c in callbacks) or "\n    pass\n"
    return (
        RECORDER.replace("@ID@", plugin_id)
        .replace("@CLASS@", cls)
        .replace("@ENABLED@", "True" if enabled else "False")
        .replace("@FIX@", "True" if fix else "False")
        .replace("@LEVEL@", str(level))
        .replace("@CALLBACKS@", body)
    )


FAULTY = '''
"""Fault-injecting rule plugin (C15): raises at the k-th invocation of one callback kind.
Configuration comes from the environment: VP_FAULT="kind:k" (kind in S,T,L,C; k counted from 1
over the whole run), VP_FAULT_COUNT=<file> receives the invocation counts of a fault-free run."""
import json
import os

from pymarkdown.plugin_manager.plugin_details import PluginDetailsV2
from pymarkdown.plugin_manager.rule_plugin import RulePlugin

_SPEC = os.environ.get("VP_FAULT", "")
_COUNT_FILE = os.environ.get("VP_FAULT_COUNT")
_INFO_FILE = os.environ.get("VP_FAULT_INFO")
_COUNTS = {"S": 0, "T": 0, "L": 0, "C": 0}
_LAST = {"file": None}


def _hit(kind, context=None):
    _COUNTS[kind] += 1
    if context is not None:
        _LAST["file"] = context.scan_file
    if _COUNT_FILE:
        with open(_COUNT_FILE, "w", encoding="utf-8") as f:
            json.dump(_COUNTS, f)
    if _SPEC:
        k, n = _SPEC.split(":")
        if k == kind and int(n) == _COUNTS[kind]:
            if _INFO_FILE:
                with open(_INFO_FILE, "w", encoding="utf-8") as f:
                    json.dump({"kind": kind, "k": int(n), "scan_file": context.scan_file if context is not None else None,
                               "last_file": _LAST["file"], "fix_mode": bool(context.in_fix_mode) if context is not None else None}, f)
            raise ValueError("vp injected fault at " + _SPEC)


class @CLASS@(RulePlugin):
    def get_details(self):
        return PluginDetailsV2(
            plugin_name="vp-faulty",
            plugin_id="AAB002",
            plugin_enabled_by_default=True,
            plugin_description="vp fault injector",
            plugin_version="0.0.1",
            plugin_supports_fix=@FIX@,
            plugin_fix_level=0,
        )

    def starting_new_file(self):
        _hit("S")

    def next_token(self, context, token):
        _hit("T", context)

    def next_line(self, context, line):
        _hit("L", context)

    def completed_file(self, context):
        _hit("C", context)
'''


def faulty_source(fix=False, cls="Faulty"):
    return FAULTY.replace("@FIX@", "True" if fix else "False").replace("@CLASS@", cls)


TEXTFAULT = '''
"""Rule plugin that raises when a line of the scanned file contains the text VP_RAISE_HERE (C18)."""
from pymarkdown.plugin_manager.plugin_details import PluginDetailsV2
from pymarkdown.plugin_manager.rule_plugin import RulePlugin


class @CLASS@(RulePlugin):
    def get_details(self):
        return PluginDetailsV2(
            plugin_name="vp-textfault",
            plugin_id="AAC003",
            plugin_enabled_by_default=True,
            plugin_description="vp text-triggered fault",
            plugin_version="0.0.1",
            plugin_supports_fix=True,
            plugin_fix_level=0,
        )

    def next_line(self, context, line):
        if "VP_RAISE_HERE" in line:
            raise ValueError("vp text-triggered fault")
'''


def textfault_source(cls="Textfault"):
    return TEXTFAULT.replace("@CLASS@", cls)
