"""Per-document evaluation of the parser-level properties C01 C02 C03 C04 C05.

eval_doc(src, props) -> {prop: (status, sig, nontrivial)} with status in
  "pass" | "fail" | "skip" (precondition not met, e.g. the document does not parse: C01's)
sig is a short, position-free failure signature (call site for exceptions, difference class
for differences).  Nothing here raises on a failing case (collect-then-shrink)."""
import re

from . import drive
from .drive import HangTimeout, WorkBudgetExceeded, WorkCounter, call_site, cpu_guard
from .oracles import cmark, htmlnorm, positions, tokens_wf

BACKSTOP_CPU_S = 20.0
_WC = WorkCounter()


def work_budget(n):
    """C01 envelope: python function entries allowed for a document of n characters."""
    return 20000 + 50 * (n + 20) ** 2


def guarded_parse(src, extensions=(), eos=False, pragmas=True, count_work=True):
    """-> (tokens|None, failure_sig|None, work)"""
    p = drive.get_parser(extensions, pragmas)
    try:
        with cpu_guard(BACKSTOP_CPU_S):
            if count_work:
                toks = _WC.run(lambda: p.parse(src, eos=eos), budget=work_budget(len(src)))
            else:
                toks = p.parse(src, eos=eos)
        return toks, None, _WC.count
    except WorkBudgetExceeded:
        return None, "work-budget-exceeded", _WC.count
    except HangTimeout:
        return None, "cpu-backstop", _WC.count
    except RecursionError:
        return None, "RecursionError", _WC.count
    except MemoryError:
        return None, "MemoryError", _WC.count
    except Exception as e:  # BadTokenizationError and anything else escaping transform()
        return None, "exc:" + call_site(e), _WC.count


_MARKUP = re.compile(r"[>\-*+#`~<\[\]_&\\!\t=|]|^\s{4}|\d[.)]", re.M)


def c01_nontrivial(src):
    return bool(_MARKUP.search(src))


_C02_NT = re.compile(r"^(\s*[>\-*+]|\s*\d+[.)])|\t|[ \t]$|[\\&]|^\[.*\]:|[^\x00-\x7f]", re.M)


def c02_nontrivial(src):
    return src.count("\n") >= 1 and len(src.rstrip("\n").split("\n")) >= 2 and bool(_C02_NT.search(src))


def _cc(ch):
    if ch == " ":
        return "sp"
    if ch == "\t":
        return "tab"
    if ch == "\n":
        return "nl"
    if ch in ">":
        return "gt"
    if ch in "-+*":
        return "mark"
    if ch == "\\":
        return "bs"
    if ch.isdigit():
        return "dig"
    if ch.isalnum():
        return "alnum"
    if ord(ch) < 32:
        return "ctrl"
    if ord(ch) > 127:
        return "uni"
    return "punct"


def h32(obj):
    import hashlib

    return hashlib.blake2b(repr(obj).encode("utf-8", "surrogatepass"), digest_size=4).hexdigest()


def md_diff_class(src, out):
    """Abstract the first difference between source and regenerated text (grouping only)."""
    i = 0
    n = min(len(src), len(out))
    while i < n and src[i] == out[i]:
        i += 1
    a = src[i] if i < len(src) else None
    b = out[i] if i < len(out) else None
    if len(out) < len(src):
        kind = "lost"
    elif len(out) > len(src):
        kind = "added"
    else:
        kind = "changed"
    return f"diff:{kind}:{_cc(a) if a else 'END'}>{_cc(b) if b else 'END'}"


def c02_eval(src, tokens):
    try:
        with cpu_guard(BACKSTOP_CPU_S):
            out = drive.Parser.markdown(tokens)
    except HangTimeout:
        return "fail", "regen-cpu-backstop"
    except RecursionError:
        return "fail", "regen-RecursionError"
    except MemoryError:
        return "fail", "regen-MemoryError"
    except Exception as e:
        return "fail", "regen-exc:" + call_site(e)
    if out == src:
        return "pass", None
    # coarse class for grouping + exact fingerprint of the (wrong) output: a known-failing document is
    # matched only while it fails in exactly the same way
    return "fail", md_diff_class(src, out) + "#" + h32(out)


_BLOCKISH = re.compile(r"<(p|h\d|ul|ol|li|blockquote|pre|hr)\b")
_INLINEISH = re.compile(r"<(em|strong|a|img|code|br)\b")


def c03_eval(src, tokens):
    """-> (status, sig, nontrivial)"""
    why = cmark.excluded(src)
    if why:
        return "skip", "excluded:" + why, False
    try:
        with cpu_guard(BACKSTOP_CPU_S):
            html = drive.Parser.html(tokens)
    except HangTimeout:
        return "fail", "html-cpu-backstop", True
    except Exception as e:
        return "fail", "html-exc:" + call_site(e), True
    ref = cmark.render(src)
    a, b = htmlnorm.events(html), htmlnorm.events(ref)
    nt = len(_BLOCKISH.findall(ref)) >= 2 or bool(_INLINEISH.search(ref)) or "<blockquote" in ref or "<li" in ref
    if a == b:
        return "pass", None, nt
    return "fail", "html:" + htmlnorm.diff_class(a, b) + "#" + h32(a), nt


def eval_doc(src, props, extensions=()):
    res = {}
    need_eos = False
    tokens, psig, work = guarded_parse(src, extensions, eos=need_eos)
    if "C01" in props:
        res["C01"] = ("fail", psig, c01_nontrivial(src)) if psig else ("pass", None, c01_nontrivial(src))
    others = [p for p in props if p != "C01"]
    if tokens is None:
        for p in others:
            res[p] = ("skip", "no-parse", False)
        return res
    if "C02" in props:
        st, sig = c02_eval(src, tokens)
        res["C02"] = (st, sig, c02_nontrivial(src))
    if "C04" in props:
        sig = tokens_wf.check(tokens)
        res["C04"] = ("fail" if sig else "pass", sig, tokens_wf.depth_classes(tokens))
    if "C05" in props:
        fails, fine = positions.check_detailed(src, tokens)
        res["C05"] = ("fail" if fails else "pass", (",".join(fails) + "#" + h32(fine)) if fails else None, positions.nontrivial(tokens))
    if "C03" in props:
        t3 = tokens
        if "pyml" in src and "<!--" in src:
            # C03's domain is "all extensions off": the pragma extension is on by default, so a document with
            # a pragma line is parsed again with it disabled (the comment is then an ordinary HTML block)
            t3, psig3, _ = guarded_parse(src, extensions, pragmas=False)
        res["C03"] = c03_eval(src, t3) if t3 is not None else ("skip", "no-parse", False)
    return res


# ------------------------------------------------------------------------------ worker entry


def eval_ranks(payload):
    """Worker: payload = (universe, ranks, props, extensions) ->
    {"n":.., "per_prop": {prop: {"fail": [(rank, sig)], "skip": n, "nt": n, "pass": n}}, "samples": [...]}"""
    from . import universes

    uname, ranks, props, extensions = payload
    u = universes.get(uname)
    per = {p: {"fail": [], "skip": 0, "nt": 0, "pass": 0, "skips": {}} for p in props}
    samples = []
    for r in ranks:
        src = u.doc(r)
        res = eval_doc(src, props, extensions)
        for p, (st, sig, nt) in res.items():
            d = per[p]
            if st == "fail":
                d["fail"].append((r, sig))
            elif st == "skip":
                d["skip"] += 1
                d["skips"][sig] = d["skips"].get(sig, 0) + 1
            else:
                d["pass"] += 1
            if nt and st != "skip":
                d["nt"] += 1
        if len(samples) < 2 and any(v[2] for v in res.values()):
            samples.append({"universe": uname, "rank": r, "src": src})
    return {"universe": uname, "n": len(ranks), "per_prop": per, "samples": samples}
