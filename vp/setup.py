"""setup_cmd: offline framework self-checks (no build step needed: pure Python).

 1. imports: hypothesis, pymarkdown from $VERIF_REPO, vendored markdown-it-py
 2. oracle self-test: the vendored CommonMark implementation must render all examples of the
    CommonMark 0.31.2 specification to the expected HTML (after htmlnorm)
 3. universe checksums must match those recorded with known_findings_data/ (frozen ranks)"""
import gzip
import json
import os
import sys

from . import VERIF_DIR, setup_repo

setup_repo()


def main():
    import hypothesis  # noqa: F401
    import pymarkdown  # noqa: F401

    from . import universes
    from .oracles import cmark, htmlnorm

    with open(os.path.join(VERIF_DIR, "corpus", "commonmark-0.31.2.json"), encoding="utf-8") as f:
        spec = json.load(f)
    bad = []
    for ex in spec:
        a = htmlnorm.events(cmark.render(ex["markdown"]))
        b = htmlnorm.events(ex["html"])
        if a != b:
            bad.append(ex["example"])
    print(f"oracle self-test: {len(spec) - len(bad)}/{len(spec)} CommonMark 0.31.2 examples agree")
    if bad:
        print("oracle self-test FAILED on examples", bad[:20])
        return 2
    data_dir = os.path.join(VERIF_DIR, "known_findings_data")
    problems = 0
    if os.path.isdir(data_dir):
        for fn in sorted(os.listdir(data_dir)):
            if not fn.endswith(".json.gz"):
                continue
            with gzip.open(os.path.join(data_dir, fn), "rt", encoding="utf-8") as f:
                d = json.load(f)
            for uname, ud in d.get("universes", {}).items():
                from . import engine

                if ud.get("checksum") != engine.get_universe(uname).checksum():
                    print(f"universe checksum mismatch: {fn} {uname}")
                    problems += 1
    print("universe checksums ok" if not problems else "universe checksums MISMATCH")
    return 2 if problems else 0


if __name__ == "__main__":
    sys.exit(main())
