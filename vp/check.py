"""CLI:  python -m vp.check <Cxx> [--tier quick|thorough] [--replay file]

exit 0: property held on everything explored (known findings printed as KNOWN-FINDING lines)
exit 1: VIOLATION property=<id> replay=<path>
exit 2: harness error (never a verdict)"""
import argparse
import importlib
import json
import os
import sys
import traceback

DOC_PROPS = {"C01", "C02", "C03", "C04", "C05"}
MODULES = {
    "C06": "vp.props.c06", "C07": "vp.props.c07", "C08": "vp.props.c08", "C09": "vp.props.c09",
    "C10": "vp.props.c10", "C11": "vp.props.c11", "C12": "vp.props.c12", "C13": "vp.props.c13",
    "C14": "vp.props.c14", "C15": "vp.props.c15", "C16": "vp.props.c16", "C17": "vp.props.c17",
    "C18": "vp.props.c18", "C19": "vp.props.c19", "C20": "vp.props.c20",
}


def main():
    ap = argparse.ArgumentParser()
    ap.add_argument("prop")
    ap.add_argument("--tier", default=os.environ.get("VERIF_TIER", "quick"), choices=["quick", "thorough"])
    ap.add_argument("--replay")
    args = ap.parse_args()
    if os.environ.get("PYTHONHASHSEED") != "0":
        os.environ["PYTHONHASHSEED"] = "0"
        os.execv(sys.executable, [sys.executable, "-m", "vp.check"] + sys.argv[1:])
    try:
        seed = int(os.environ.get("VERIF_SEED", "1") or "1")
    except ValueError:
        seed = 1
    os.chdir(os.path.dirname(os.path.dirname(os.path.abspath(__file__))))
    import atexit
    import logging
    import shutil
    import tempfile

    # one scratch root per run: worker processes end with os._exit (no atexit), so their private
    # sandboxes are removed here, by the parent, whatever way the run ends
    scratch = tempfile.mkdtemp(prefix="vp-run-")
    os.environ["VERIF_SCRATCH"] = scratch
    atexit.register(shutil.rmtree, scratch, True)

    logging.disable(logging.CRITICAL)
    try:
        if args.prop in DOC_PROPS:
            from vp.props import docs as mod

            if args.replay:
                with open(args.replay, encoding="utf-8") as f:
                    rec = json.load(f)
                bad = False
                for s, st, sig in mod.replay(args.prop, rec["case"]):
                    print(f"replay: {st} sig={sig} src={s!r}")
                    bad |= st == "fail"
                if bad:
                    print(f"VIOLATION property={args.prop} replay={args.replay}")
                return 1 if bad else 0
            return mod.main(args.prop, args.tier, seed)
        mod = importlib.import_module(MODULES[args.prop])
        if args.replay:
            with open(args.replay, encoding="utf-8") as f:
                rec = json.load(f)
            bad = mod.replay(rec["case"])
            if bad:
                print(f"replay: still fails: {bad}")
                print(f"VIOLATION property={args.prop} replay={args.replay}")
                return 1
            print("replay: passes")
            return 0
        return mod.main(args.tier, seed)
    except SystemExit:
        raise
    except BaseException:
        traceback.print_exc()
        print(f"HARNESS-ERROR property={args.prop} (no verdict)", file=sys.stderr)
        return 2


if __name__ == "__main__":
    sys.exit(main())
