"""16-way fan-out of rank lists / job lists over worker processes.

A job is (function path 'module:func', payload).  Functions are resolved inside the worker so
nothing but plain data crosses the process boundary."""
import importlib
import multiprocessing as mp
import os
import sys
import time

NPROC = int(os.environ.get("VERIF_PROCS", "0")) or min(16, os.cpu_count() or 1)


def _resolve(path):
    mod, fn = path.split(":")
    return getattr(importlib.import_module(mod), fn)


def _init():
    # workers: quiet logging, private hash seed already inherited
    import logging
    import resource

    logging.disable(logging.CRITICAL)
    # memory guard: a runaway allocation in the code under test becomes a MemoryError in that
    # worker (reported as a failure signature) instead of taking the machine down
    lim = int(os.environ.get("VERIF_WORKER_MEM_GB", "1")) * (1 << 30)
    try:
        resource.setrlimit(resource.RLIMIT_AS, (lim, lim))
    except (ValueError, OSError):
        pass


def _call(job):
    path, payload = job
    try:
        return ("ok", _resolve(path)(payload))
    except BaseException as e:  # harness error inside a worker: report, never a VIOLATION
        import traceback

        return ("harness_error", "".join(traceback.format_exception(type(e), e, e.__traceback__)))


class HarnessError(Exception):
    pass


def run_jobs(func_path, payloads, procs=None, stall_s=900):
    """Yield results (unordered).  Raises HarnessError on a worker-side harness exception or
    when no job completes for stall_s wall seconds (inconclusive, never a violation)."""
    procs = procs or NPROC
    payloads = list(payloads)
    if not payloads:
        return
    if procs == 1 or len(payloads) == 1:
        _init()
        for p in payloads:
            st, res = _call((func_path, p))
            if st != "ok":
                raise HarnessError(res)
            yield res
        return
    ctx = mp.get_context("fork")
    with ctx.Pool(min(procs, len(payloads)), initializer=_init, maxtasksperchild=200) as pool:
        it = pool.imap_unordered(_call, [(func_path, p) for p in payloads])
        while True:
            try:
                st, res = it.next(timeout=stall_s)
            except StopIteration:
                break
            except mp.TimeoutError:
                pool.terminate()
                raise HarnessError(f"no job completed for {stall_s}s (stalled worker); inconclusive")
            if st != "ok":
                pool.terminate()
                raise HarnessError(res)
            yield res


def chunks(seq, n):
    seq = list(seq)
    for i in range(0, len(seq), n):
        yield seq[i : i + n]
