"""In-process drivers for the code under test.

Everything here imports pymarkdown from $VERIF_REPO (default /repo) at call time, so a
check always exercises the current working tree.
"""
import contextlib
import io
import os
import signal
import sys
import traceback

from . import REPO_DIR, setup_repo

setup_repo()

ALL_EXTENSIONS = (
    "front-matter",
    "markdown-strikethrough",
    "markdown-task-list-items",
    "markdown-extended-autolinks",
    "markdown-disallow-raw-html",
)
# pragmas ("linter-pragmas") are enabled by default


class HangTimeout(BaseException):
    """CPU-time guard fired (BaseException so `except Exception` in the code under test
    does not swallow it)."""


class WorkBudgetExceeded(BaseException):
    """Deterministic work budget (python function entries) exceeded."""


def _on_timer(signum, frame):
    raise HangTimeout()


@contextlib.contextmanager
def cpu_guard(seconds):
    """Arm ITIMER_VIRTUAL (CPU seconds of this process) around a call."""
    old = signal.signal(signal.SIGVTALRM, _on_timer)
    signal.setitimer(signal.ITIMER_VIRTUAL, seconds)
    try:
        yield
    finally:
        signal.setitimer(signal.ITIMER_VIRTUAL, 0)
        signal.signal(signal.SIGVTALRM, old)


# ----------------------------------------------------------------------------------
# deterministic work counter


class WorkCounter:
    """Counts python function entries (sys.monitoring PY_START) of code whose file lies
    under the repository's pymarkdown/ package; raises WorkBudgetExceeded past `budget`."""

    TOOL = 3  # sys.monitoring.PROFILER_ID - free in our processes

    def __init__(self):
        self.count = 0
        self.budget = None
        self.active = False

    def _cb(self, code, offset):
        self.count += 1
        if self.budget is not None and self.count > self.budget:
            self.budget = None
            raise WorkBudgetExceeded()

    def run(self, fn, budget=None):
        mon = sys.monitoring
        self.count = 0
        self.budget = budget
        mon.use_tool_id(self.TOOL, "vp-work")
        try:
            mon.register_callback(self.TOOL, mon.events.PY_START, self._cb)
            mon.set_events(self.TOOL, mon.events.PY_START)
            try:
                return fn()
            finally:
                mon.set_events(self.TOOL, 0)
                mon.register_callback(self.TOOL, mon.events.PY_START, None)
        finally:
            mon.free_tool_id(self.TOOL)


# ----------------------------------------------------------------------------------
# exception signatures


def root_exception(exc):
    """Walk the __cause__/__context__ chain to the innermost cause."""
    seen = set()
    while True:
        nxt = exc.__cause__ or (None if exc.__suppress_context__ else exc.__context__)
        if nxt is None or id(nxt) in seen:
            return exc
        seen.add(id(exc))
        exc = nxt


def call_site(exc):
    """(exception type, 'pymarkdown/..py::function') of the innermost pymarkdown frame of
    the root cause.  No line numbers, so hooks/unrelated edits do not shift it."""
    root = root_exception(exc)
    where = "?"
    tb = traceback.extract_tb(root.__traceback__)
    for fr in reversed(tb):
        fn = fr.filename.replace("\\", "/")
        idx = fn.rfind("/pymarkdown/")
        if idx >= 0:
            where = fn[idx + 1 :] + "::" + fr.name
            break
    return f"{type(root).__name__}@{where}"


# ----------------------------------------------------------------------------------
# parser-level driver


class Parser:
    """TokenizedMarkdown + both generators configured like test/utils.py does."""

    def __init__(self, extensions=(), pragmas=True, extra_config=None):
        from application_properties import ApplicationProperties
        from pymarkdown.extension_manager.extension_manager import ExtensionManager
        from pymarkdown.general.main_presentation import MainPresentation
        from pymarkdown.general.tokenized_markdown import TokenizedMarkdown

        cfg = {"extensions": {}}
        for e in extensions:
            cfg["extensions"][e] = {"enabled": True}
        if not pragmas:
            cfg["extensions"]["linter-pragmas"] = {"enabled": False}
        if extra_config:
            cfg.update(extra_config)
        props = ApplicationProperties()
        props.load_from_dict(cfg)
        em = ExtensionManager(MainPresentation())
        em.initialize(None, props)
        em.apply_configuration()
        self.tokenizer = TokenizedMarkdown()
        self.tokenizer.apply_configuration(props, em)

    def parse(self, src, eos=False):
        import logging

        # transform() sets the root logger level on every call; keep it quiet
        return self.tokenizer.transform(src, show_debug=False, do_add_end_of_stream_token=eos)

    @staticmethod
    def html(tokens):
        from pymarkdown.transform_gfm.transform_to_gfm import TransformToGfm

        return TransformToGfm().transform(tokens)

    @staticmethod
    def markdown(tokens):
        from pymarkdown.transform_markdown.transform_to_markdown import TransformToMarkdown

        return TransformToMarkdown().transform(tokens)


_PARSERS = {}


def get_parser(extensions=(), pragmas=True):
    key = (tuple(extensions), pragmas)
    if key not in _PARSERS:
        _PARSERS[key] = Parser(extensions, pragmas)
    return _PARSERS[key]


# ----------------------------------------------------------------------------------
# application-level driver


class _Exit(Exception):
    pass


def run_main(argv, stdin_text=None, cwd=None):
    """Run PyMarkdownLint().main(argv) in-process.  Returns (exit_code, stdout, stderr).

    exit_code is None if main() returned without SystemExit (not expected)."""
    from pymarkdown.main import PyMarkdownLint

    old_out, old_err, old_in, old_cwd = sys.stdout, sys.stderr, sys.stdin, None
    out, err = io.StringIO(), io.StringIO()
    code = None
    if cwd is not None:
        old_cwd = os.getcwd()
        os.chdir(cwd)
    try:
        sys.stdout, sys.stderr = out, err
        if stdin_text is not None:
            sys.stdin = io.StringIO(stdin_text)
        try:
            PyMarkdownLint().main(direct_args=list(argv))
            code = 0
        except SystemExit as e:
            code = e.code if e.code is not None else 0
    finally:
        sys.stdout, sys.stderr, sys.stdin = old_out, old_err, old_in
        if old_cwd is not None:
            os.chdir(old_cwd)
    return code, out.getvalue(), err.getvalue()


def repo_version():
    import subprocess

    try:
        return subprocess.run(
            ["git", "-C", REPO_DIR, "rev-parse", "--short", "HEAD"],
            capture_output=True,
            text=True,
            check=False,
        ).stdout.strip()
    except Exception:  # pragma: no cover
        return "?"
