"""Budgeted delta debugging of a document to a (nearly) 1-minimal replay.

`fails(doc) -> bool` must be deterministic; budget counts oracle evaluations, not time."""


def _reduce(items, join, fails, budget):
    n = 2
    while len(items) >= 2 and budget[0] > 0:
        size = max(1, len(items) // n)
        reduced = False
        for i in range(0, len(items), size):
            cand = items[:i] + items[i + size :]
            if not cand:
                continue
            budget[0] -= 1
            if fails(join(cand)):
                items = cand
                n = max(n - 1, 2)
                reduced = True
                break
            if budget[0] <= 0:
                break
        if not reduced:
            if size == 1:
                break
            n = min(len(items), n * 2)
    return items


def minimize_doc(src, fails, budget=400):
    b = [budget]
    lines = src.split("\n")
    lines = _reduce(lines, "\n".join, fails, b)
    cur = "\n".join(lines)
    chars = list(cur)
    chars = _reduce(chars, "".join, fails, b)
    cur = "".join(chars)
    # simplify characters: letters -> 'a'
    for i, ch in enumerate(cur):
        if b[0] <= 0:
            break
        if ch.isalpha() and ch != "a":
            cand = cur[:i] + "a" + cur[i + 1 :]
            b[0] -= 1
            if fails(cand):
                cur = cand
    return cur
