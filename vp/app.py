"""Application-level helpers: private sandboxes, scan/fix through the real entry points."""
import hashlib
import os
import re
import shutil
import tempfile

from . import drive
from .drive import HangTimeout, cpu_guard

FAIL_RE = re.compile(r"^(.*?):(-?\d+):(-?\d+): ([A-Za-z]+\d+): (.*)$")

ALL_RULE_IDS = None
FIX_RULE_IDS = None
DEFAULT_ENABLED = None
RULE_NAMES = None


class Sandbox:
    """A private working directory + private TMPDIR, removed on close."""

    def __init__(self):
        base = os.environ.get("VERIF_SCRATCH") or tempfile.gettempdir()
        self.root = tempfile.mkdtemp(prefix="vp-sbx-", dir=base)
        self.work = os.path.join(self.root, "w")
        self.tmp = os.path.join(self.root, "t")
        os.mkdir(self.work)
        os.mkdir(self.tmp)
        self._old_tmp = (os.environ.get("TMPDIR"), tempfile.tempdir)
        os.environ["TMPDIR"] = self.tmp
        tempfile.tempdir = self.tmp

    def write(self, rel, text, newline=""):
        p = os.path.join(self.work, rel)
        os.makedirs(os.path.dirname(p), exist_ok=True)
        if isinstance(text, bytes):
            with open(p, "wb") as f:
                f.write(text)
        else:
            with open(p, "w", encoding="utf-8", newline=newline) as f:
                f.write(text)
        return p

    def read(self, rel):
        with open(os.path.join(self.work, rel), "rb") as f:
            return f.read()

    def snapshot(self):
        """{relative path: sha256} of everything under root (work + tmp)."""
        out = {}
        for d, _, files in os.walk(self.root):
            for fn in files:
                p = os.path.join(d, fn)
                try:
                    with open(p, "rb") as f:
                        out[os.path.relpath(p, self.root)] = hashlib.sha256(f.read()).hexdigest()
                except OSError:
                    out[os.path.relpath(p, self.root)] = "unreadable"
        return out

    def clear(self):
        for sub in (self.work, self.tmp):
            for name in os.listdir(sub):
                p = os.path.join(sub, name)
                if os.path.isdir(p) and not os.path.islink(p):
                    shutil.rmtree(p, ignore_errors=True)
                else:
                    try:
                        os.remove(p)
                    except OSError:
                        pass

    def close(self):
        if self._old_tmp[0] is None:
            os.environ.pop("TMPDIR", None)
        else:
            os.environ["TMPDIR"] = self._old_tmp[0]
        tempfile.tempdir = self._old_tmp[1]
        shutil.rmtree(self.root, ignore_errors=True)

    def __enter__(self):
        return self

    def __exit__(self, *a):
        self.close()


_SBX = None


def sandbox():
    """Per-process sandbox, created lazily, removed at interpreter exit."""
    global _SBX
    if _SBX is None or _SBX.pid != os.getpid():
        import atexit

        _SBX = Sandbox()
        _SBX.pid = os.getpid()
        atexit.register(_close, _SBX)
    return _SBX


def _close(s):
    if s.pid == os.getpid():
        s.close()


def parse_failures(stdout):
    """-> (failures [(file, line, col, rule, text)], other lines)"""
    fails, other = [], []
    for line in stdout.split("\n"):
        m = FAIL_RE.match(line)
        if m:
            fails.append((m.group(1), int(m.group(2)), int(m.group(3)), m.group(4), m.group(5)))
        elif line:
            other.append(line)
    return fails, other


def main_guarded(argv, stdin_text=None, cwd=None, cpu_s=60.0):
    """run_main under the CPU backstop -> (code, out, err) ; code == 'hang' on backstop."""
    try:
        with cpu_guard(cpu_s):
            return drive.run_main(argv, stdin_text=stdin_text, cwd=cwd)
    except HangTimeout:
        return "hang", "", ""


def scan_text(src, args=(), name="t.md", pre_args=()):
    """Scan one document through main(); -> (code, failures[(line, col, rule, text)], stderr, stdout)"""
    sb = sandbox()
    sb.clear()
    sb.write(name, src)
    code, out, err = main_guarded(list(pre_args) + ["scan"] + list(args) + [name], cwd=sb.work)
    fails, _ = parse_failures(out)
    return code, [(f[1], f[2], f[3], f[4]) for f in fails], err, out


def fix_text(src, args=(), name="t.md", pre_args=()):
    """Fix one document in place through main(); -> (code, new_text(bytes->str), stdout, stderr)"""
    sb = sandbox()
    sb.clear()
    sb.write(name, src)
    code, out, err = main_guarded(list(pre_args) + ["fix"] + list(args) + [name], cwd=sb.work)
    try:
        new = sb.read(name).decode("utf-8", "surrogateescape")
    except OSError:
        new = None
    return code, new, out, err


def rule_table():
    """Parse `plugins list --all` once: ids, default enabled, fix-capable, names."""
    global ALL_RULE_IDS, FIX_RULE_IDS, DEFAULT_ENABLED, RULE_NAMES
    if ALL_RULE_IDS is not None:
        return ALL_RULE_IDS, DEFAULT_ENABLED, FIX_RULE_IDS, RULE_NAMES
    code, out, err = drive.run_main(["plugins", "list", "--all"])
    ids, dflt, fix, names = [], set(), set(), {}
    cur = None
    for line in out.split("\n"):
        m = re.match(r"^\s{2}(\w+\d+)\s+(\S.*?)\s+(True|False)\s+(True|False)\s+(\S+)\s+(Yes|No)\s*$", line)
        if m:
            cur = m.group(1)
            ids.append(cur)
            names[cur] = m.group(2).strip()
            if m.group(3) == "True":
                dflt.add(cur)
            if m.group(6) == "Yes":
                fix.add(cur)
        elif cur and line.startswith("          ") and line.strip():
            names[cur] += line.strip()
    for k in names:
        names[k] = [x.strip() for x in names[k].split(",")]
    ALL_RULE_IDS, DEFAULT_ENABLED, FIX_RULE_IDS, RULE_NAMES = ids, dflt, fix, names
    return ids, dflt, fix, names
