"""Hypothesis stage for the document-level properties: structured documents built by construction
(shallow profile: container depth <= 1, every leaf kind, full inline grammar, optional laziness).

Failures are collected (never raised inside the property) so one campaign enumerates every root cause it
meets; a failure is known only through a call-site matcher (exceptions) or a listed shape predicate."""
import collections

import hypothesis
from hypothesis import given, settings, strategies as st

from .. import docprops, pool
from ..ddmin import minimize_doc

# C03 is not admitted: on the pinned tree even the shallow profile disagrees with the independent parser on ~5% of the
# documents in several unrelated shapes (html blocks with blank lines inside list items, `>     # x`, empty fences ...);
# its coverage is carried by the rank-matched universes.
# C05 is not admitted either: lazy continuation lines and list items shift inline columns in many shapes (KF-C05-*).
ENABLED = {"C01": True, "C02": True, "C03": False, "C04": True, "C05": False}

WORD = st.sampled_from(["a", "bc", "foo", "Bar", "x1", "z", "é", "the", "end."])
ESC = st.sampled_from(["\\*", "\\_", "\\[", "\\\\", "\\`", "\\<", "\\#", "\\a"])
ENT = st.sampled_from(["&amp;", "&lt;", "&copy;", "&#35;", "&#x22;", "&nosuch;"])


def inline(depth=0):
    base = [WORD, WORD, WORD, ESC, ENT,
            st.builds(lambda w: f"`{w}`", WORD),
            st.builds(lambda w: f"`` {w} ` ``", WORD),
            st.sampled_from(["<http://a.b/c>", "<x@y.z>", "<b>", "</b>", "<a href=\"u\">", "<!-- c -->", "<br/>"]),
            st.builds(lambda w, d: f"[{w}]({d})", WORD, st.sampled_from(["/u", "/u \"t\"", "<a b>", "", "#f", "/p(q)"])),
            st.builds(lambda w: f"![{w}](/i.png)", WORD),
            st.sampled_from(["[l]", "[l][]", "[t][l]", "[L]", "[nope]", "[t][nope]"])]
    if depth < 2:
        sub = st.deferred(lambda: inline(depth + 1))
        base += [st.builds(lambda s: f"*{s}*", sub), st.builds(lambda s: f"**{s}**", sub), st.builds(lambda s: f"_{s}_", sub),
                 # (steered away by construction: a backslash escape inside link text is a listed C02 finding shape)
                 st.builds(lambda s: "[" + s.replace("\\", "") + "](/n)", sub)]
    return st.one_of(base)


INLINE_LINE = st.lists(inline(), min_size=1, max_size=5).map(" ".join)
BREAK = st.sampled_from(["\n", "\n", "\n", "  \n", "\\\n"])


@st.composite
def paragraph(draw):
    n = draw(st.integers(1, 3))
    out = draw(INLINE_LINE)
    for _ in range(n - 1):
        brk = draw(BREAK)
        nxt = draw(INLINE_LINE)
        if brk == "\\\n" and nxt.lstrip("*_")[:1] in "[!":
            nxt = "w " + nxt  # steered away by construction: backslash hard break directly before a link (KF-C02-hardbreak-then-bracket)
        out += brk + draw(st.sampled_from(["", "", " ", "  "])) + nxt
    # steered away by construction (KF-C02-hardbreak-then-bracket): a backslash hard break with a link or image later in
    # the same paragraph
    if "\\\n" in out and "[" in out.split("\\\n", 1)[1]:
        out = out.replace("\\\n", "  \n")
    # a paragraph must not start with something that opens another block
    if out[:1] in "#>-+*=0123456789<`~[" or out.startswith(("    ", "_")):
        out = "w " + out
    return out.split("\n")


LEAF = st.one_of(
    paragraph(), paragraph(), paragraph(),
    st.builds(lambda n, t: ["#" * n + " " + t], st.integers(1, 6), INLINE_LINE),
    st.builds(lambda n, t: ["#" * n + " " + t + " " + "#" * n], st.integers(1, 6), WORD),
    st.builds(lambda t, c, k: [t, c * k], WORD, st.sampled_from("=-"), st.integers(1, 5)),
    st.sampled_from([["---"], ["***"], ["___"], ["- - -"], ["* * *"]]),
    st.builds(lambda f, i, body: [f + i] + body + [f], st.sampled_from(["```", "~~~", "````"]), st.sampled_from(["", "py", "text x"]), st.lists(st.sampled_from(["x = 1", "", "  y", "# not h", "- no", "> no"]), max_size=3)),
    st.builds(lambda body: ["    " + b for b in body], st.lists(st.sampled_from(["code", "more  code", "# x"]), min_size=1, max_size=2)),
    st.sampled_from([["<div>", "x", "</div>"], ["<!-- c", "d -->"], ["<?php x ?>"], ["<pre>", "", "a", "</pre>"], ["<custom-tag a=\"b\">"]]),
    st.sampled_from([["[l]: /u"], ["[l]: /u 'title'"], ["[l]: </u v>"], ["[L2]:", "  /u2", "  \"t2\""]]),
)


@st.composite
def blocks(draw, n_max=4):
    bl = draw(st.lists(LEAF, min_size=1, max_size=n_max))
    lines = []
    prev_para = False
    for b in bl:
        is_para = not b[0].startswith(("#", "```", "~~~", "    ", "<", "[l", "[L", "---", "***", "___", "- -", "* *"))
        if lines:
            # blank line between blocks unless the next block may legally follow directly
            if draw(st.booleans()) or (prev_para and (is_para or b[0].startswith("    ") or len(b) > 1 and b[1][:1] in "=-")) or b[0].startswith(("[l", "[L")) or lines[-1].startswith(("[l", "[L", "  ")):
                lines.append("")
        lines += b
        prev_para = is_para and not (len(b) == 2 and b[1][:1] in "=-" and set(b[1]) <= set("=-"))
    return lines


@st.composite
def document(draw):
    parts = []
    for _ in range(draw(st.integers(1, 3))):
        kind = draw(st.sampled_from(["plain", "plain", "quote", "ulist", "olist"]))
        body = draw(blocks())
        if kind == "plain":
            parts.append(body)
        elif kind == "quote":
            lazy = draw(st.booleans())
            out = []
            for i, l in enumerate(body):
                if lazy and i > 0 and l and body[i - 1] and not body[i - 1].startswith(("#", "`", "~", " ", "<", "[", "-", "*", "_", "=")) and l[:1].isalnum() and not l[:1].isdigit():
                    out.append(l)  # lazy continuation of a paragraph
                else:
                    out.append(("> " + l) if l else draw(st.sampled_from([">", "> "])))
            parts.append(out)
        else:
            marker = draw(st.sampled_from(["-", "*", "+"])) if kind == "ulist" else None
            start = draw(st.integers(1, 5))
            items = [body] + [draw(blocks(2)) for _ in range(draw(st.integers(0, 2)))]
            out = []
            for k, it in enumerate(items):
                m = (marker + " ") if marker else f"{start + k}. "
                pad = " " * len(m)
                for i, l in enumerate(it):
                    out.append(((m if i == 0 else pad) + l) if l else "")
                if draw(st.booleans()) and k + 1 < len(items):
                    out.append("")
            parts.append(out)
    lines = []
    for p in parts:
        if lines:
            lines.append("")
        lines += p
    doc = "\n".join(lines)
    if draw(st.booleans()):
        doc += "\n"
    return doc


def excluded_shape(src):
    """Shapes steered away from (counted): none at present beyond what the grammar avoids by construction."""
    return None


def campaign(payload):
    seed, n, prop = payload
    out = {"n": 0, "nt": set(), "fails": [], "labels": collections.Counter(), "samples": []}

    @hypothesis.seed(seed)
    @settings(max_examples=n, deadline=None, database=None, report_multiple_bugs=False, suppress_health_check=list(hypothesis.HealthCheck), phases=[hypothesis.Phase.generate])
    @given(doc=document())
    def prop_fn(doc):
        res = docprops.eval_doc(doc, [prop])
        st_, sig, nt = res[prop]
        out["n"] += 1
        out["labels"]["quote" if "\n> " in "\n" + doc else "noquote"] += 1
        out["labels"]["list" if any(l[:2] in ("- ", "* ", "+ ") or l[:3] in ("1. ", "2. ", "3. ", "4. ", "5. ") for l in doc.split("\n")) else "nolist"] += 1
        out["labels"][st_] += 1
        if nt and st_ != "skip":
            out["nt"].add(doc)
            if len(out["samples"]) < 2:
                out["samples"].append({"generator": "hypothesis-structured-shallow", "src": doc})
        if st_ == "fail":
            out["fails"].append((str(sig).split("#")[0], doc))

    prop_fn()
    out["nt"] = list(out["nt"])
    out["labels"] = dict(out["labels"])
    return out


def stage(run, prop, tier, seed):
    if not ENABLED.get(prop):
        return
    shards, per = (8, 150) if tier == "quick" else (16, 20000)
    unmatched = {}
    for res in pool.run_jobs("vp.props.docs_hyp:campaign", [(seed * 977 + s, per, prop) for s in range(shards)]):
        run.evaluations += res["n"]
        for d in res["nt"]:
            run.nontrivial("hyp:" + d)
        for k, v in res["labels"].items():
            run.labels["hyp_" + k] += v
        for s in res["samples"]:
            run.add_sample(s, cap=18)
        for sig, doc in res["fails"]:
            if run.known.match_generated(sig, doc):
                run.labels["hyp_known_finding"] += 1
                continue
            unmatched.setdefault(sig, []).append(doc)
    for sig, docs in sorted(unmatched.items())[:8]:
        doc = min(docs, key=len)

        def fails(d, _sig=sig):
            st_, s, _ = docprops.eval_doc(d, [prop])[prop]
            return st_ == "fail" and str(s).split("#")[0] == _sig

        try:
            small = minimize_doc(doc, fails, budget=250)
        except Exception:
            small = doc
        run.violation("hyp|" + sig, {"kind": "doc", "generator": "hypothesis-structured-shallow", "src": doc, "min_src": small, "count_this_run": len(docs)})
