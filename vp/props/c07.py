"""C07: scan never fails internally; every report is in range, unique, ordered; deterministic."""
import re

from .. import app, docprops, engine
from ..oracles.positions import _width
from ..runner import Run, h64

PLAN = {"B2/53": 825, "B3/89": 495, "B4/83": 385, "I4/97": 495, "N1/11": 825, "W1/2": 660, "S2": 660, "S3": 165, "U1/7": 220, "X2/3": 275, "H4/3": 220, "P2": 275, "R2/3": 300, "R3": 300, "K7/3": 150, "T4/3": 400, "Z1": 800, "Q2": 600, "P3": 700, "E1/211": 400, "M3/3": 400, "L6": 400, "G2": 400, "H6": 300, "U2": 400, "L7": 500}
FIRST = {"B2/53": 60}
EVALUATOR = "vp.props.c07:ev"
RULE = (
    "documents = fixed sub-lattices (every k-th rank) of the bounded universes that parse; configurations per document: default rule set, "
    "all rules enabled (incl. default-disabled md002 md006 pml100 pml101), and 2 single rules alone chosen by source hash; each scanned twice through "
    "PyMarkdownLint.main; oracle: no plugin failure, exit in {0,1} and ==1 iff failures, every 'file:line:col: ID:' within the file, sorted by "
    "(line, col, id), no duplicate line, second scan byte-identical; non-trivial = >=2 failures from >=2 rules; distinct by (source hash, config)"
)
CRASH_RE = re.compile(r"Plugin id '(\w+)' had a critical failure during the '(\w+)' action")
INLINE_RE = re.compile(r"^.*?:\d+:\d+: INLINE: ")


def configs_for(src):
    ids, dflt, _, _ = app.rule_table()
    ids = [i for i in ids if i != "md999"]
    extra = [i for i in ids if i not in dflt]
    out = [("default", []), ("all", ["-e", ",".join(extra)])]
    h = h64(src)
    for k in range(2):
        r = ids[(h >> (8 * k)) % len(ids)]
        out.append(("alone:" + r, alone_args(r)))
    return out


def alone_args(rule):
    ids, dflt, _, _ = app.rule_table()
    others = [i for i in ids if i != rule and i in dflt]
    args = ["-d", ",".join(others)]
    if rule not in dflt:
        args += ["-e", rule]
    return args


def check_scan(src, pre_args):
    """-> (sig or None, failures)"""
    code, fails, err, out = app.scan_text(src, pre_args=pre_args)
    if code == "hang":
        return "scan-cpu-backstop", []
    m = CRASH_RE.search(err)
    if m:
        return f"plugin-crash:{m.group(1)}:{m.group(2)}", fails
    if "BadPluginError" in err or "BadTokenizationError" in err or "Traceback" in err:
        return "internal-error:" + re.sub(r"[^A-Za-z ]+", "", err.strip().split("\n")[0])[:50], fails
    bad_err = [l for l in err.split("\n") if l.strip() and not INLINE_RE.match(l)]
    if bad_err:
        return "stderr:" + re.sub(r"[^A-Za-z ]+", "", bad_err[0])[:50], fails
    if code not in (0, 1):
        return f"exit:{code}", fails
    if (code == 1) != bool(fails):
        return f"exit-mismatch:{code}/{len(fails)}", fails
    lines = src.split("\n")
    problems = set()
    for ln, col, rid, _ in fails:
        if not 1 <= ln <= len(lines):
            problems.add(f"line-range:{rid}")
        elif not 1 <= col <= _width(lines[ln - 1]) + 1:
            problems.add(f"col-range:{rid}")
    keys = [(f[0], f[1], f[2]) for f in fails]
    if keys != sorted(keys):
        problems.add("unsorted")
    outl = [l for l in out.split("\n") if l]
    if len(set(outl)) != len(outl):
        problems.add("duplicate")
    code2, fails2, err2, out2 = app.scan_text(src, pre_args=pre_args)
    if (code2, out2, err2) != (code, out, err):
        problems.add("nondeterministic")
    return (",".join(sorted(problems)) or None), fails


def ev(src, opts, rank):
    toks, psig, _ = docprops.guarded_parse(src, count_work=True)
    if toks is None:
        return "skip", "no-parse", False, ()
    sigs = []
    nt = False
    for name, args in configs_for(src):
        sig, fails = check_scan(src, args)
        if sig:
            sigs.append(f"{name.split(':')[0]}|{sig}")
        if len(fails) >= 2 and len({f[2] for f in fails}) >= 2:
            nt = True
    if sigs:
        return "fail", ";".join(sorted(set(sigs))), nt, ("failing-config",)
    return "pass", None, nt, ()


def main(tier, seed):
    run = Run("C07", tier, seed)
    run.regressions(replay)
    exh = engine.run_universes(run, EVALUATOR, PLAN, tier, seed, first=FIRST, chunk=60)
    return run.finish(RULE, assumptions=["documents that do not parse are C01's (skipped)", "columns on lines with tabs are accepted up to the tab-expanded width"], exhaustive=False)


def replay(case):
    return engine.replay_doc(EVALUATOR, case)
