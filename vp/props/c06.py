"""C06: rule verdicts match the documented condition, no more and no less."""
import collections

from .. import app, docprops, drive, engine
from ..oracles import cmark, htmlnorm, rules_ref
from ..runner import Run
from .c07 import CRASH_RE

PLAN = {"B2/53": 486, "B3/89": 270, "B4/83": 135, "N1/11": 648, "W1/2": 540, "S2": 378, "S3": 81, "I4/97": 135, "H4": 648, "P2": 486, "R2/3": 324, "R3": 162, "T4/3": 216, "Z1": 486, "Q2": 378, "P3": 324, "E1/211": 270, "M3/5": 162, "L6": 216, "G2": 216, "H6": 266, "U2": 216, "L7/3": 216}
EVALUATOR = "vp.props.c06:ev"
RULE = (
    "documents = sub-lattices of the bounded universes on which C03's oracle holds (the independent parser agrees on the block structure), without pragmas / front matter / CR; "
    "rules with a crisp documented trigger: md001 md003 md004 md005 md007 md009 md010 md012 md013 md014 md018 md019 md020 md021 md022 md023 md024 md025 md026 md027 md028 md029 md030 md031 md032 md033 md034 md035 md036 md037 md038 md039 md040 md041 md042 md043 md044 md045 md046 md047 md048, each under its default configuration (one scan with exactly these "
    "rules enabled) and under the documented configuration values listed in oracles/rules_ref.py::REFS (rule alone, values via --set), variant scans only when the rule's construct occurs in the document; "
    "oracle: per rule an independent statement of the documented trigger over (source lines, markdown-it-py block view) giving MUST and MUST-NOT line sets (everything else = documentation silent, not judged); "
    "failure = a MUST line without a report of that rule (missed) or a report on a MUST-NOT line (spurious); only (line, rule id) is compared; non-trivial = a non-empty MUST set or a report; distinct by (source hash, rule, configuration)"
)
IDS = sorted(rules_ref.REFS)


def fmt(v):
    if isinstance(v, bool):
        return f"$!{v}"
    if isinstance(v, int):
        return f"$#{v}"
    return str(v)


def missed(must, got):
    """a MUST element is a line, or a frozenset of lines of which at least one must carry a report"""
    return any((not (m & got)) if isinstance(m, frozenset) else (m not in got) for m in must)


def only_args(rules):
    ids, dflt, _, _ = app.rule_table()
    others = [i for i in ids if i in dflt and i not in rules]
    return ["-d", ",".join(others)]


def relevant(rid, v):
    if rid in ("md004",):
        return bool(v.ul_items)
    if rid == "md035":
        return bool(v.hrs)
    if rid in ("md046", "md048"):
        return bool(v.fences or v.code_blocks)
    if rid in ("md025", "md026", "md022"):
        return bool(v.headings)
    if rid == "md029":
        return bool(v.ol_lists)
    if rid == "md007":
        return bool(v.ul_items)
    if rid == "md030":
        return bool(v.li_items)
    if rid == "md024":
        return len(v.headings) >= 2
    if rid == "md009":
        return any(l.endswith(" ") for l in v.lines)
    if rid == "md010":
        return "\t" in v.src
    if rid in ("md003", "md043"):
        return bool(v.headings)
    if rid == "md012":
        return "\n\n\n" in v.src
    if rid == "md033":
        return "<" in v.src
    if rid == "md036":
        return "*" in v.src or "_" in v.src
    if rid == "md044":
        return "paragraph" in v.src.lower() or "this" in v.src.lower()
    return True


def ev(src, opts, rank):
    if "\r" in src or "<!--" in src or src.startswith("---") or "\x00" in src:
        return "skip", "excluded:pragma-like comment / front-matter start / CR", False, ()
    toks, psig, _ = docprops.guarded_parse(src)
    if toks is None:
        return "skip", "no-parse", False, ()
    if cmark.excluded(src):
        return "skip", "excluded:outside C03 domain", False, ()
    try:
        html = drive.Parser.html(toks)
    except Exception:
        return "skip", "html-error (C03's)", False, ()
    if htmlnorm.events(html) != htmlnorm.events(cmark.render(src)):
        return "skip", "C03 precondition (block structure not confirmed by the independent parser)", False, ()
    try:
        v = rules_ref.View(src)
    except Exception as e:  # reference bug = harness error, not a verdict
        raise
    problems = set()
    nt = False
    labels = []
    # default configuration: one scan with exactly the referenced rules
    default_variants = {rid: cfgs[0] for rid, (fn, cfgs) in rules_ref.REFS.items() if not cfgs[0]}
    code, fails, err, out = app.scan_text(src, pre_args=only_args(set(default_variants)))
    if code == "hang" or CRASH_RE.search(err) or ("Error" in err):
        return "skip", "scan-error (C07's)", False, ()
    reported = collections.defaultdict(set)
    for ln, col, rid, txt in fails:
        reported[rid.lower()].add(ln)
    for rid in default_variants:
        must, must_not = rules_ref.REFS[rid][0](v, {})
        got = reported.get(rid, set())
        if missed(must, got):
            problems.add(f"{rid}|default|missed")
        if got & must_not:
            problems.add(f"{rid}|default|spurious")
        if must or got:
            nt = True
            labels.append(rid)
    # configuration variants, rule alone
    for rid, (fn, cfgs) in rules_ref.REFS.items():
        if not relevant(rid, v):
            continue
        for ci, cfg in enumerate(cfgs):
            if not cfg:
                continue
            args = only_args({rid})
            for k, val in cfg.items():
                args += ["--set", f"plugins.{rid}.{k}={fmt(val)}"]
            code, fails, err, out = app.scan_text(src, pre_args=args)
            if code == "hang" or CRASH_RE.search(err) or ("Error" in err):
                continue
            got = {ln for ln, col, r, txt in fails if r.lower() == rid}
            must, must_not = fn(v, cfg)
            tag = ",".join(f"{k}={val}" for k, val in sorted(cfg.items()))
            if missed(must, got):
                problems.add(f"{rid}|{tag}|missed")
            if got & must_not:
                problems.add(f"{rid}|{tag}|spurious")
            if must or got:
                nt = True
    if problems:
        return "fail", ";".join(sorted(problems)), nt, labels
    return "pass", None, nt, labels


def main(tier, seed):
    run = Run("C06", tier, seed)
    run.regressions(replay)
    engine.run_universes(run, EVALUATOR, PLAN, tier, seed, chunk=40)
    return run.finish(RULE, assumptions=[
        "the references encode a conservative two-sided reading of newdocs/src/plugins/rule_md*.md: lines the documentation does not clearly decide are in neither set",
        "block structure comes from the vendored markdown-it-py (line maps), established per document by C03's oracle",
        "rules without a crisp, parser-independent documented trigger (md002 md006 md011 md999 pml100 pml101) are not judged here; for md012 md014 md028 md043 and setext headings in md003 the documentation does not say which line carries the report, so a report on any line of the construct satisfies a MUST"])


def replay(case):
    return engine.replay_doc(EVALUATOR, case)
