"""C13: results for a file do not depend on which files were processed before it."""
import collections
import hashlib
import json
import os
import random
import re

from .. import VERIF_DIR, app, docprops, fixlib, pool, universes
from ..runner import Run, h64

RULE = (
    "pool = the rule resource documents of the repository's test-suite (corpus snapshot, those that parse and scan cleanly alone) + synthetic state probes (blanket pragmas, "
    "link definitions vs. undefined references, duplicate / single-h1 headings, open fences/lists/quotes at end of file, fence and list marker styles, front-matter-like starts); "
    "histories: for every pool document A one invocation over the file sequence A B1 A B2 A B3 ... (every adjacency A->Bi and Bi->A), scan and fix mode, Bs = seeded sample (quick) / whole pool (thorough); "
    "plus a Hypothesis rule-based state machine over one long-lived PyMarkdownApi object (scan_string / fix_string / scan_path / rule toggles); oracle: per-file failures, pragma errors and fixed bytes equal "
    "those of processing the file alone in a fresh run; non-trivial = an ordered pair (A, B) with A != B where A carries state (a failure, pragma, definition or open block); distinct by (A, B, mode)"
)

PROBES = [
    ("pragma-all-100", "<!-- pyml disable-num-lines 100 md001,md003,md004,md005,md007,md009,md010,md012,md013,md018,md019,md020,md021,md022,md023,md024,md025,md026,md027,md028,md029,md030,md031,md032,md033,md034,md035,md036,md037,md038,md039,md040,md041,md042,md043,md044,md045,md046,md047,md048-->\n# t\n"),
    ("pragma-next-3", "# t\n\n<!-- pyml disable-next-line md013,md009,md010,md019,md022,md012,md033,md034-->\ntext\n"),
    ("pragma-next-1", "<!-- pyml disable-next-line md041,md013,md009,md010,md019,md018,md022,md023-->\ntext\n"),
    ("lrd-foo", "# t\n\n[foo]: /url 'title'\n[bar]: /other\n\n[foo] and [bar]\n"),
    ("use-foo", "# t\n\n[foo] and [bar] and [FOO][]\n"),
    ("dup-heading", "# Title\n\n## Section\n\ntext\n"),
    ("dup-heading-2", "# Title\n\n## Section\n\nmore\n"),
    ("h3-last", "# a\n\n## b\n\n### c\n"),
    ("h2-first", "## starts at two\n\ntext\n"),
    ("open-fence", "# t\n\n```py\nnever closed\n"),
    ("open-tilde", "# t\n\n~~~\nclosed\n~~~\n"),
    ("backtick-fence", "# t\n\n```text\nclosed\n```\n"),
    ("open-list", "# t\n\n- a\n  - b\n    - c"),
    ("open-quote", "# t\n\n> quote\n> - list\nlazy"),
    ("ul-star", "# t\n\n* a\n* b\n"),
    ("ul-dash", "# t\n\n- a\n- b\n"),
    ("ol-ones", "# t\n\n1. a\n1. b\n1. c\n"),
    ("ol-ordered", "# t\n\n1. a\n2. b\n3. c\n"),
    ("hr-dash", "# t\n\n---\n\ntext\n\n---\n"),
    ("hr-star", "# t\n\n***\n\ntext\n\n***\n"),
    ("setext", "Title\n=====\n\nSub\n---\n"),
    ("atx-closed", "# Title #\n\n## Sub ##\n"),
    ("indented-code", "# t\n\n    code\n\ntext\n"),
    ("emphasis-heading", "**Not a heading**\n\ntext\n"),
    ("long-line", "# t\n\n" + "word " * 30 + "\n"),
    ("tabs", "# t\n\n\ttabbed\n\ta\tb\n"),
    ("trailing", "# t\n\ntext   \nmore \n"),
    ("blanks", "# t\n\n\n\n\ntext\n"),
    ("html", "# t\n\n<div>\n\n<b>x</b> and <http://a.b> http://bare.url\n"),
    ("front-like", "---\ntitle: x\n---\n\n# t\n"),
    ("empty", ""),
    ("one-nl", "\n"),
    ("no-final-nl", "# t\n\nno newline at end"),
    ("proper", "# t\n\npymarkdown and PyMarkdown and github\n"),
    ("images", "# t\n\n![](/u) ![alt](/u) [](/empty) [x]()\n"),
    ("code-span", "# t\n\n` a ` and `` b`` and * c *\n"),
]


def build_pool():
    docs = []
    seen = set()
    import json as _j

    with open(os.path.join(VERIF_DIR, "corpus", "suite_docs.jsonl"), encoding="utf-8") as f:
        for line in f:
            r = _j.loads(line)
            if r["origin"].startswith("md:") and "/rules/" in r["origin"] and r["src"] not in seen and len(r["src"]) <= 600:
                seen.add(r["src"])
                docs.append((r["origin"][3:], r["src"]))
    for n, s in PROBES:
        if s not in seen:
            seen.add(s)
            docs.append(("probe:" + n, s))
    return docs


def alone(payload):
    """Worker: alone results for a slice of the pool."""
    out = []
    for idx, name, src in payload:
        toks, psig, _ = docprops.guarded_parse(src)
        if toks is None:
            out.append((idx, None))
            continue
        code, fails, err, so = app.scan_text(src, name="x.md")
        if code not in (0, 1) or fixlib.ERR_RE.search(err):
            out.append((idx, None))
            continue
        f1 = fixlib.fix_once(src, [])
        out.append((idx, {"fails": fails, "err": _norm_err(err), "fixed": None if f1["error"] else f1["text"]}))
    return out


def _norm_err(err):
    return sorted(re.sub(r"^.*?(:\d+:\d+: INLINE)", r"\1", l) for l in err.split("\n") if l.strip())


def run_sequence(payload):
    """Worker: one invocation over A B1 A B2 ... ; returns mismatches."""
    mode, a_idx, b_list, docs, alone_res = payload
    sb = app.sandbox()
    sb.clear()
    seq = []
    for j, b in enumerate(b_list):
        seq.append(a_idx)
        seq.append(b)
    names = []
    for pos, di in enumerate(seq):
        nm = f"f{pos:05d}.md"
        sb.write(nm, docs[di])
        names.append(nm)
    mism = []
    if mode == "scan":
        code, out, err = app.main_guarded(["scan", "."], cwd=sb.work, cpu_s=600)
        per = collections.defaultdict(list)
        for f in app.parse_failures(out)[0]:
            per[os.path.basename(f[0])].append((f[1], f[2], f[3], f[4]))
        per_err = collections.defaultdict(list)
        for l in err.split("\n"):
            m = re.match(r"^(?:\./)?(f\d+\.md)(:\d+:\d+: INLINE.*)$", l.strip())
            if m:
                per_err[m.group(1)].append(m.group(2))
            elif l.strip():
                per_err["?"].append(l)
        if per_err.get("?"):
            return {"harness": f"unexpected stderr in sequence run: {per_err['?'][:2]}", "mism": [], "n": 0}
        for pos, di in enumerate(seq):
            want = alone_res[di]
            got = per.get(names[pos], [])
            if collections.Counter(got) != collections.Counter(want["fails"]) or sorted(per_err.get(names[pos], [])) != want["err"]:
                mism.append((seq[pos - 1] if pos else None, di, "scan"))
    else:
        code, out, err = app.main_guarded(["fix", "."], cwd=sb.work, cpu_s=600)
        if fixlib.ERR_RE.search(err) or code not in (0, 3):
            return {"harness": None, "mism": [], "n": 0, "skipped": 1}
        for pos, di in enumerate(seq):
            want = alone_res[di]["fixed"]
            got = sb.read(names[pos]).decode("utf-8", "surrogateescape")
            if want is not None and got != want:
                mism.append((seq[pos - 1] if pos else None, di, "fix"))
    return {"harness": None, "mism": mism, "n": len(seq)}


def key_of(docs, a, b, mode):
    ha = hashlib.sha1(docs[a].encode()).hexdigest()[:8] if a is not None else "START"
    hb = hashlib.sha1(docs[b].encode()).hexdigest()[:8]
    return f"{mode}:{ha}->{hb}"


def api_machine(run, docs, alone_res, usable, tier, seed):
    """Hypothesis stateful: one long-lived PyMarkdownApi object."""
    import hypothesis
    from hypothesis import settings, strategies as st
    from hypothesis.stateful import RuleBasedStateMachine, rule, run_state_machine_as_test

    from pymarkdown.api import PyMarkdownApi, PyMarkdownApiException

    idxs = [i for i in usable if docs[i].strip()]
    found = []
    stats = collections.Counter()

    class M(RuleBasedStateMachine):
        def __init__(self):
            super().__init__()
            self.api = PyMarkdownApi().log_error_and_above()
            self.prev = None

        @rule(i=st.sampled_from(idxs))
        def scan(self, i):
            stats["scan_string"] += 1
            try:
                r = self.api.scan_string(docs[i])
            except PyMarkdownApiException as e:
                found.append(("api-raises", self.prev, i))
                raise AssertionError("api raised") from e
            got = collections.Counter((f.line_number, f.column_number, f.rule_id) for f in r.scan_failures)
            want = collections.Counter((f[0], f[1], f[2]) for f in alone_res[i]["fails"])
            if got != want:
                found.append(("api-scan", self.prev, i))
            assert got == want
            if self.prev is not None and self.prev != i:
                run.nontrivial(f"api:{self.prev}->{i}")
            self.prev = i

        @rule(i=st.sampled_from(idxs))
        def fix(self, i):
            if alone_res[i]["fixed"] is None:
                return
            stats["fix_string"] += 1
            try:
                r = self.api.fix_string(docs[i])
            except PyMarkdownApiException as e:
                found.append(("api-raises", self.prev, i))
                raise AssertionError("api raised") from e
            with_nl = alone_res[i]["fixed"]
            if r.fixed_file != with_nl:
                found.append(("api-fix", self.prev, i))
            assert r.fixed_file == with_nl
            if self.prev is not None and self.prev != i:
                run.nontrivial(f"apifix:{self.prev}->{i}")
            self.prev = i

    n = 25 if tier == "quick" else 400
    try:
        run_state_machine_as_test(
            hypothesis.seed(seed)(M),
            settings=settings(max_examples=n, stateful_step_count=30, deadline=None, database=None, report_multiple_bugs=False,
                              suppress_health_check=list(hypothesis.HealthCheck), phases=[hypothesis.Phase.generate]),
        )
    except AssertionError:
        pass
    run.labels.update({"api_" + k: v for k, v in stats.items()})
    run.evaluations += sum(stats.values())
    for kind, a, b in found[:3]:
        key = key_of(docs, a, b, kind)
        if not run.known.match_case(key):
            run.violation(key, {"kind": "history", "mode": kind, "A": docs[a] if a is not None else None, "B": docs[b]})


def main(tier, seed):
    run = Run("C13", tier, seed)
    run.regressions(replay)
    pl = build_pool()
    docs = [s for _, s in pl]
    jobs = [[(i, pl[i][0], docs[i]) for i in c] for c in pool.chunks(range(len(docs)), 12)]
    alone_res = {}
    for res in pool.run_jobs("vp.props.c13:alone", jobs):
        for idx, r in res:
            alone_res[idx] = r
    usable = [i for i in range(len(docs)) if alone_res.get(i)]
    run.labels["pool_size"] = len(usable)
    run.labels["pool_unusable_alone"] = len(docs) - len(usable)
    rnd = random.Random(f"{seed}:c13")
    nb = 24 if tier == "quick" else len(usable)
    seq_jobs = []
    probe_idx = [i for i in usable if pl[i][0].startswith("probe:")]
    for mode in ("scan", "fix"):
        for a in usable:
            if tier == "quick":
                bs = rnd.sample(usable, min(nb, len(usable)))
                if pl[a][0].startswith("probe:"):
                    bs = list(dict.fromkeys(bs + rnd.sample(usable, min(40, len(usable)))))
                else:
                    bs = list(dict.fromkeys(bs + rnd.sample(probe_idx, min(6, len(probe_idx)))))
            else:
                bs = list(usable)
            if mode == "fix" and tier == "quick":
                bs = bs[: max(8, len(bs) // 3)]
            seq_jobs.append((mode, a, bs, docs, alone_res))
    mism_all = []
    for res in pool.run_jobs("vp.props.c13:run_sequence", seq_jobs):
        if res.get("harness"):
            raise pool.HarnessError(res["harness"])
        run.evaluations += res["n"]
        run.labels["sequence_runs"] += 1
        mism_all.extend(res["mism"])
    for mode, a, bs, _, _ in seq_jobs:
        for b in bs:
            if a != b:
                run.nontrivial(f"{mode}:{a}->{b}")
                run.nontrivial(f"{mode}:{b}->{a}")
    seen = set()
    for a, b, mode in mism_all:
        key = key_of(docs, a, b, mode)
        if key in seen:
            continue
        seen.add(key)
        if run.known.match_case(key):
            continue
        if len(run.violations) < 10:
            run.violation(key, {"kind": "history", "mode": mode, "A": docs[a] if a is not None else None, "B": docs[b], "A_origin": pl[a][0] if a is not None else None, "B_origin": pl[b][0]})
    api_machine(run, docs, alone_res, usable, tier, seed)
    for a in usable[:6]:
        run.add_sample({"A_origin": pl[a][0], "sequence_shape": "A B1 A B2 ...", "A": docs[a][:120]})
    return run.finish(RULE, assumptions=["alone-results come from fresh single-file runs in the same process (PyMarkdownLint constructed per run)", "fix sequences whose run ends in an application error are skipped (C15's)"], exhaustive=(tier == "thorough"))


def replay(case):
    """Re-run A then B in one invocation and compare B with B alone."""
    A, B, mode = case.get("A"), case["B"], case["mode"]
    docs = [A if A is not None else B, B]
    ar = dict(alone([(0, "a", docs[0]), (1, "b", docs[1])]))
    if not ar.get(1):
        return None
    if mode.startswith("api"):
        from pymarkdown.api import PyMarkdownApi

        api = PyMarkdownApi().log_error_and_above()
        if A:
            api.scan_string(A)
        r = api.scan_string(B)
        got = collections.Counter((f.line_number, f.column_number, f.rule_id) for f in r.scan_failures)
        want = collections.Counter((f[0], f[1], f[2]) for f in ar[1]["fails"])
        return None if got == want else "api result after A differs from alone"
    res = run_sequence((("fix" if mode == "fix" else "scan"), 0, [1], docs, ar))
    return res["mism"] or None
