"""C09: fix converges — fix(fix(d)) == fix(d), second run fixes nothing, nothing fixable left."""
from .. import app, engine, fixlib
from ..runner import Run

PLAN = {"B2/53": 560, "B3/89": 320, "B4/83": 160, "N1/11": 719, "W1/2": 560, "S2": 400, "S3": 96, "I4/97": 240, "U1/7": 80, "H4/3": 160, "P2": 320, "R2/3": 500, "R3": 400, "K7": 400, "T4/5": 250, "Z1": 500, "Q2": 400, "P3": 400, "E1/211": 300, "M3/3": 400, "L6": 400, "G2": 300, "H6": 200, "L7": 500}
EVALUATOR = "vp.props.c09:ev"
# second pass: documented configuration values of the fix-capable rules (rule alone), keyed `<universe>#cfg`
PLAN_CFG = {"Z1#cfg": 400, "Q2#cfg": 250, "T4/5#cfg": 120, "L6#cfg": 250, "M3/3#cfg": 150, "N1/11#cfg": 300, "W1/2#cfg": 250, "B3/89#cfg": 150, "R3#cfg": 120, "H4/3#cfg": 80, "P3#cfg": 150, "G2#cfg": 300}
EVALUATORS = {"#cfg": "vp.props.c09:ev_cfg"}
RULE = (
    "documents = sub-lattices of the bounded universes that parse and scan cleanly; configurations per document: default rule set, up to 2 single fix-capable default rules "
    "and 1 pair (chosen among the fix-capable rules that report on the document, by source hash); second pass (`#cfg`): up to 3 documented non-default configuration values of one fix-capable rule, rule alone, on documents containing its construct; oracle: f=fix through main(): f(f(d))==f(d) byte for byte, the second run "
    "exits 0 / announces nothing, and scan(f(d)) under the same configuration has no failure from an enabled fix-capable rule; fix runs ending in an error are C15's (skipped, counted); "
    "non-trivial = f(d) != d; distinct by (source hash, configuration)"
)


def ev(src, opts, rank):
    if not fixlib.parses(src):
        return "skip", "no-parse", False, ()
    base = fixlib.scan_ok(src, [])
    if base is None:
        return "skip", "scan-error (C07's)", False, ()
    return _judge(src, fixlib.configs_for(src, base))


def ev_cfg(src, opts, rank):
    """the same oracle under documented non-default configuration values of one fix-capable rule (rule alone)"""
    if not fixlib.parses(src):
        return "skip", "no-parse", False, ()
    cfgs = fixlib.cfg_configs_for(src)
    if not cfgs:
        return "skip", "no configurable construct in the document", False, ()
    return _judge(src, cfgs)


def _judge(src, configs):
    _, _, fixable, _ = app.rule_table()
    problems = set()
    nt = False
    labels = []
    for name, args, rules in configs:
        kind = name.split(":")[0]
        f1 = fixlib.fix_once(src, args)
        if f1["error"]:
            labels.append("fix-error-skipped")
            continue
        if f1["text"] == src:
            labels.append(f"{kind}:unchanged")
            continue
        nt = True
        labels.append(f"{kind}:changed")
        f2 = fixlib.fix_once(f1["text"], args)
        tag = name if kind != "default" else "default"
        if f2["error"]:
            problems.add(f"{tag}|second-run-error")
            continue
        if f2["text"] != f1["text"]:
            problems.add(f"{tag}|not-idempotent")
        elif f2["code"] != 0 or "Fixed:" in f2["out"]:
            problems.add(f"{tag}|second-run-claims-fix")
        sc = fixlib.scan_ok(f1["text"], args)
        if sc is None:
            problems.add(f"{tag}|scan-after-error")
        else:
            enabled = set(rules) if rules else None
            left = sorted({f[2].lower() for f in sc if f[2].lower() in fixable and (enabled is None or f[2].lower() in enabled)})
            if left:
                problems.add(f"{tag}|fixable-left:{','.join(left)}")
    if problems:
        return "fail", ";".join(sorted(problems)), nt, labels
    return "pass", None, nt, labels


def main(tier, seed):
    run = Run("C09", tier, seed)
    run.regressions(replay)
    engine.run_universes(run, EVALUATOR, PLAN, tier, seed, chunk=40)
    engine.run_universes(run, EVALUATORS["#cfg"], PLAN_CFG, tier, seed, chunk=40)
    return run.finish(RULE, assumptions=["fix runs that end in BadPluginFixError / plugin errors are not convergence failures (C15)", "pairs and singles are sampled per document by source hash, not enumerated"])


def replay(case):
    return engine.replay_doc(EVALUATORS["#cfg"] if "#cfg" in str(case.get("universe", "")) else EVALUATOR, case)
