"""C01 C02 C03 C04 C05: document-level properties over universes (+ Hypothesis, + families)."""
import glob
import json
import os
import random

from .. import VERIF_DIR, docprops, pool, universes
from ..ddmin import minimize_doc
from ..runner import Run, h64

QUICK = {"B2": 8000, "B3": 5000, "B4": 4000, "I4": 6000, "I6": 2000, "N1": 7000, "W1": 4000, "S2": 3000, "S3": 1782, "U1": 2000, "X2": 1500, "H4": 1500, "M5": 4000, "L1": 2400, "P2": 2500, "R2": 2500, "R3": 1500, "K7": 2000, "T4": 2000, "E1": 9000, "L2": 2500, "L3": 2000, "L4": 3000, "L5": 3000, "H5": 2500, "P3": 1500, "M3": 2500, "L6": 2500, "G2": 1500, "H6": 495, "L7": 2500}
FIRST = {"B2": 1452, "I4": 130, "I6": 8, "U1": 216, "X2": 35}
UNIVERSES = {
    "C01": ["B2", "B3", "B4", "I4", "I6", "N1", "W1", "S2", "S3", "U1", "X2", "H4", "M5", "L1", "P2", "R2", "R3", "K7", "T4", "E1", "L2", "L3", "L4", "L5", "H5", "P3", "M3", "L6", "G2", "H6", "L7"],
    "C02": ["B2", "B3", "B4", "I4", "I6", "N1", "W1", "S2", "S3", "U1", "X2", "H4", "M5", "L1", "P2", "R2", "R3", "K7", "T4", "E1", "L2", "L3", "L4", "L5", "H5", "P3", "M3", "L6", "G2", "H6", "L7"],
    "C03": ["B2", "B3", "B4", "I4", "I6", "N1", "W1", "S2", "S3", "X2", "H4", "M5", "L1", "P2", "R2", "R3", "K7", "T4", "E1", "L2", "L3", "L4", "L5", "H5", "P3", "M3", "L6", "G2", "H6", "L7"],
    "C04": ["B2", "B3", "B4", "I4", "I6", "N1", "W1", "S2", "S3", "U1", "X2", "H4", "M5", "L1", "P2", "R2", "R3", "K7", "T4", "E1", "L2", "L3", "L4", "L5", "H5", "P3", "M3", "L6", "G2", "H6", "L7"],
    "C05": ["B2", "B3", "B4", "I4", "I6", "N1", "W1", "S2", "S3", "U1", "X2", "H4", "M5", "L1", "P2", "R2", "R3", "K7", "T4", "E1", "L2", "L3", "L4", "L5", "H5", "P3", "M3", "L6", "G2", "H6", "L7"],
}
RULES = {
    "C01": "documents = ranks of the bounded-exhaustive universes (line-vocabulary products B2/B3/B4, inline fragment products I4/I6, single-edit neighbourhood N1 and container wraps W1 of the test-suite's own documents, structured nests S2/S3, unicode U1, extension syntax X2) + scaling families + Hypothesis structured documents; oracle: transform() returns and python-function-entry work <= 20000+50*(n+20)^2; non-trivial = document contains a container marker, leaf-block opener or inline delimiter; distinct by source hash",
    "C02": "same document families; oracle: TransformToMarkdown(tokens) == source character for character; non-trivial = >=2 lines and one of container prefix / tab / trailing whitespace / backslash or entity / link reference definition / non-ASCII; distinct by source hash",
    "C03": "same families minus constructs on which CommonMark 0.29 and 0.31 differ (counted as excluded); oracle: htmlnorm(TransformToGfm(tokens)) == htmlnorm(markdown-it-py commonmark render); non-trivial = rendered HTML has >=2 block elements or a container or an inline element; distinct by source hash",
    "C04": "same families; oracle: independent push-down automaton over the token list (end closes innermost open start by identity, nothing left open, class discipline); non-trivial = the stream opens >=2 nested scopes of different classes; distinct by source hash",
    "C05": "same families; oracle: range / block order / anchor text at (line, column) per token kind; non-trivial = a positioned token on a line > 1 or at column > 1 inside a container; distinct by source hash",
}
ASSUME = {
    "C01": ["work is counted with sys.monitoring PY_START events (deterministic); non-termination is only observable as exceeding the budget"],
    "C02": ["documents that do not parse are C01's and are skipped here"],
    "C03": ["trusted base: vendored markdown-it-py 4.0.0, validated by vp.setup on the 652 CommonMark 0.31.2 examples", "constructs where 0.29 and 0.31 differ are excluded by predicate (oracles/cmark.py)"],
    "C04": ["'li' is treated as a scope-less marker (statement: a new-list-item token appears directly inside its list)"],
    "C05": ["html-block, icode-block, text, hard-break and BLANK get range+order only (the statement names no anchor for them)", "with tabs either the raw index or the tab-expanded column is accepted"],
}


_DISTILLED = None


def distilled(uname):
    """Coverage-distilled stratum (tools/distill.py): the ranks of this universe that, streamed in order, each added a line
    or branch direction of pymarkdown/ not reached before.  Always part of the quick tier."""
    global _DISTILLED
    if _DISTILLED is None:
        p = os.path.join(VERIF_DIR, "corpus", "distilled_parse.json")
        _DISTILLED = json.load(open(p)) if os.path.exists(p) else {}
    return _DISTILLED.get(uname, [])


def plan_ranks(uname, tier, seed):
    u = universes.get(uname)
    if tier == "thorough":
        return range(u.size), True
    k = min(QUICK.get(uname, 2000), u.size)
    first = min(FIRST.get(uname, 0), u.size)
    rnd = random.Random(f"{seed}:{uname}")
    ranks = set(range(first))
    ranks.update(r for r in distilled(uname) if r < u.size)
    ranks.update(rnd.sample(range(u.size), k))
    return sorted(ranks), len(ranks) == u.size


def eval_one(prop, src, extensions=()):
    return docprops.eval_doc(src, [prop], tuple(extensions))[prop]


def run_universes(run, prop, tier, seed, extensions=(), names=None):
    names = names or UNIVERSES[prop]
    all_exh = True
    unmatched = {}
    skip = set(filter(None, os.environ.get("VERIF_SKIP_UNIVERSES", "").split(",")))
    for uname in names:
        if uname in skip:
            continue
        ranks, exh = plan_ranks(uname, tier, seed)
        all_exh &= exh
        ext = tuple(extensions) or universes.extensions_for(uname)
        jobs = [(uname, c, [prop], ext) for c in pool.chunks(ranks, 400)]
        stats = {"evaluated": 0, "pass": 0, "fail_known": 0, "fail_new": 0, "skipped": 0, "nontrivial": 0, "exhaustive": exh, "size": universes.get(uname).size}
        for res in pool.run_jobs("vp.docprops:eval_ranks", jobs):
            d = res["per_prop"][prop]
            stats["evaluated"] += res["n"]
            stats["pass"] += d["pass"]
            stats["skipped"] += d["skip"]
            stats["nontrivial"] += d["nt"]
            for k, v in d["skips"].items():
                (run.excluded if k.startswith("excluded:") else run.skipped)[k] += v
            for s in res["samples"]:
                if len(run.samples) < 14 and (len(run.samples) < 3 or s["universe"] not in {x.get("universe") for x in run.samples}):
                    run.add_sample(s)
            for rank, sig in d["fail"]:
                fid = run.known.match_rank(uname, rank, sig)
                if fid:
                    stats["fail_known"] += 1
                else:
                    stats["fail_new"] += 1
                    unmatched.setdefault(sig.split("#")[0], []).append((uname, rank))
        run.evaluations += stats["evaluated"]
        run.nt_extra += stats["nontrivial"]  # ranks within a universe are distinct documents
        run.per_universe[uname] = stats
    # minimise and record unmatched failures (one per signature, at most 12 signatures)
    for sig, lst in sorted(unmatched.items(), key=lambda kv: (len(kv[0]), kv[0]))[:12]:
        lst.sort(key=lambda ur: len(universes.get(ur[0]).doc(ur[1])))
        uname, rank = lst[0]
        src = universes.get(uname).doc(rank)

        ext = tuple(extensions) or universes.extensions_for(uname)

        def fails(d, _sig=sig, _ext=ext):
            st, s, _ = eval_one(prop, d, _ext)
            return st == "fail" and s.split("#")[0] == _sig

        try:
            small = minimize_doc(src, fails, budget=300)
        except Exception:  # minimisation is best effort
            small = src
        run.violation(sig, {"kind": "doc", "universe": uname, "rank": rank, "src": src, "min_src": small, "extensions": list(ext), "count_this_run": len(lst), "more": [list(x) for x in lst[1:6]]})
    return all_exh


def run_regressions(run, prop):
    """Seconds-long replay tier: shrunk reproductions of fixed findings / self-test mutants.
    Each listed document must satisfy the property now."""
    n = 0
    if os.environ.get("VERIF_SKIP_REGRESSIONS"):
        return
    for path in sorted(glob.glob(os.path.join(VERIF_DIR, "regressions", prop, "*.json"))):
        with open(path, encoding="utf-8") as f:
            case = json.load(f)
        for src in case.get("docs", []):
            st, sig, nt = eval_one(prop, src, case.get("extensions", ()))
            n += 1
            run.evaluations += 1
            if nt:
                run.nontrivial(src)
            if st == "fail":
                run.violation("regression:" + os.path.basename(path) + ":" + str(sig), {"kind": "doc", "src": src, "extensions": case.get("extensions", []), "regression": os.path.basename(path)})
    run.labels["regression_docs"] = n


def replay(prop, case):
    src = case.get("min_src") or case["src"]
    out = []
    for s in {case["src"], src}:
        st, sig, _ = eval_one(prop, s, case.get("extensions", ()))
        out.append((s, st, sig))
    return out


def main(prop, tier, seed):
    run = Run(prop, tier, seed)
    run_regressions(run, prop)
    exh = run_universes(run, prop, tier, seed)
    from . import docs_extra

    docs_extra.extra(run, prop, tier, seed)
    return run.finish(RULES[prop], assumptions=ASSUME[prop], exhaustive=False)
