"""C19: file discovery selects exactly the documented set, once each, in sorted order."""
import collections
import glob as globmod
import json
import os

import hypothesis
from hypothesis import given, settings, strategies as st

from .. import app, pool
from ..runner import Run

RULE = (
    "Hypothesis-generated cases: a directory tree (depth <= 3, <= 9 files; names a.md b.MD c.txt d.markdown e.md.bak .md x[1].md q?.md s*.md qa.md in directories d, e, d/sub, 'sp ace') built in a private "
    "directory, an argument list of 1-3 paths (existing files, directories with/without trailing slash and ./ spellings, globs, missing paths, duplicates, every permutation checked), --recurse, "
    "--alternate-extensions (valid lists), observed through `scan --list-files`, `fix --list-files`, `scan` (every eligible file carries a failure so it shows in the output), `fix` (set of changed files) and "
    "PyMarkdownApi.list_path (single path); oracle: reference model written from the user guide (vp/props/c19.py::model): glob for arguments containing * or ?, literal otherwise; directory -> eligible files directly "
    "inside (all descendants with --recurse); missing path / ineligible named file / glob without match -> error, nothing processed, no-files result; empty selection -> no-files result; otherwise the sorted set, "
    "each file once (by real path), independent of argument order; non-trivial = >=2 arguments that overlap or are of different kinds; distinct by (tree, arguments, options)"
)
FILE_NAMES = ["a.md", "b.MD", "c.txt", "d.markdown", "e.md.bak", ".md", "x[1].md", "q?.md", "s*.md", "qa.md", "z.md"]
DIRS = ["", "d", "e", "d/sub", "sp ace", "d/sub/deep"]
CONTENT = "not a heading   \n"  # md041 (visible in scan) + md009 (changed by fix)


def eligible(name, exts):
    return any(name.endswith(e) for e in exts)


def model(root, args, recurse, exts):
    """-> ('error', None) | ('nofiles', None) | ('ok', sorted list of real paths)"""
    sel = set()
    cwd = os.getcwd()
    os.chdir(root)
    try:
        for a in args:
            if "*" in a or "?" in a:
                hits = globmod.glob(a)
                if not hits:
                    return "error", None
                paths = hits
                from_glob = True
            else:
                paths = [a]
                from_glob = False
            for p in paths:
                if not os.path.exists(p):
                    return "error", None
                if os.path.isdir(p):
                    for d, subdirs, files in os.walk(p):
                        if not recurse and os.path.realpath(d) != os.path.realpath(p):
                            continue
                        for f in files:
                            if eligible(f, exts):
                                sel.add(os.path.realpath(os.path.join(d, f)))
                elif eligible(p, exts):
                    sel.add(os.path.realpath(p))
                elif not from_glob:
                    return "error", None
        if not sel:
            return "nofiles", None
        return "ok", sorted(sel)
    finally:
        os.chdir(cwd)


tree_st = st.lists(st.tuples(st.sampled_from(DIRS), st.sampled_from(FILE_NAMES)), min_size=0, max_size=9, unique=True)


@st.composite
def case_st(draw):
    tree = draw(tree_st)
    dirs_present = sorted({d for d, _ in tree if d} | {"emptydir"})
    files_present = [os.path.join(d, f) if d else f for d, f in tree]
    cands = []
    for f in files_present:
        cands += [f, "./" + f]
    for d in dirs_present:
        cands += [d, d + "/", "./" + d, d + "//"]
    cands += [".", "./", "*.md", "*", "d/*", "d/*.md", "?.md", "**", "*/*.md", "q?.md", "s*.md", "nomatch*.md", "missing.md", "missingdir", "d/missing.md", "*.txt", "x[1].md"]
    args = draw(st.lists(st.sampled_from(cands), min_size=1, max_size=3))
    recurse = draw(st.booleans())
    exts = draw(st.sampled_from([None, None, ".md", ".txt", ".md,.markdown", ".markdown", ".markdown,.txt,.md", ".bak"]))
    return {"tree": tree, "args": args, "recurse": recurse, "exts": exts}


def build(sb, tree):
    sb.clear()
    os.makedirs(os.path.join(sb.work, "emptydir"), exist_ok=True)
    for d, f in tree:
        sb.write(os.path.join(d, f) if d else f, CONTENT)


def observe(sb, case, args):
    """Run the four CLI observations for one argument order -> dict"""
    opt = []
    if case["recurse"]:
        opt.append("--recurse")
    if case["exts"]:
        opt += ["--alternate-extensions", case["exts"]]
    res = {}
    code, out, err = app.main_guarded(["scan", "--list-files"] + opt + args, cwd=sb.work)
    res["list"] = (code, [l for l in out.split("\n") if l.strip()], err)
    code, out, err = app.main_guarded(["-d", "md047", "scan"] + opt + args, cwd=sb.work)
    names = []
    for f in app.parse_failures(out)[0]:
        if f[0] not in names:
            names.append(f[0])
    res["scan"] = (code, names, err)
    return res


def judge(sb, case):
    """-> (set of problem strings, nontrivial)"""
    exts = (case["exts"] or ".md").split(",")
    args = list(case["args"])
    build(sb, case["tree"])
    kind, want = model(sb.work, args, case["recurse"], exts)
    problems = set()

    def real(names):
        return [os.path.realpath(os.path.join(sb.work, n)) for n in names]

    orders = [args]
    if len(args) > 1:
        orders.append(list(reversed(args)))
        if len(args) == 3:
            orders.append([args[1], args[2], args[0]])
    first_obs = None
    for oi, order in enumerate(orders):
        build(sb, case["tree"])
        obs = observe(sb, case, order)
        tag = "" if oi == 0 else "permuted:"
        for what in ("list", "scan"):
            code, names, err = obs[what]
            if code == "hang":
                problems.add(f"{what}:hang")
                continue
            if kind == "ok":
                okcode = 0 if what == "list" else 1
                if code != okcode:
                    problems.add(f"{tag}{what}:exit-{code}-for-valid-selection")
                got = real(names)
                if len(set(got)) != len(got):
                    problems.add(f"{tag}{what}:same-file-more-than-once")
                if set(got) != set(want):
                    problems.add(f"{tag}{what}:" + ("extra-files" if set(got) - set(want) else "missing-files"))
                if names != sorted(names):
                    problems.add(f"{tag}{what}:not-sorted")
            else:
                if names:
                    problems.add(f"{tag}{what}:files-processed-despite-{kind}")
                if code != 1:
                    problems.add(f"{tag}{what}:exit-{code}-for-{kind}")
        if first_obs is None:
            first_obs = obs
    # fix: the set of changed files
    if kind in ("ok", "error", "nofiles"):
        build(sb, case["tree"])
        opt = (["--recurse"] if case["recurse"] else []) + (["--alternate-extensions", case["exts"]] if case["exts"] else [])
        before = sb.snapshot()
        code, out, err = app.main_guarded(["fix"] + opt + args, cwd=sb.work)
        after = sb.snapshot()
        changed = sorted(os.path.realpath(os.path.join(sb.root, k)) for k in before if after.get(k) != before[k])
        if kind == "ok":
            if changed != sorted(want):
                problems.add("fix:" + ("extra-files-changed" if set(changed) - set(want) else "files-not-fixed"))
            if code != 3:
                problems.add(f"fix:exit-{code}-for-valid-selection")
        else:
            if changed:
                problems.add(f"fix:files-changed-despite-{kind}")
            if code != 1:
                problems.add(f"fix:exit-{code}-for-{kind}")
    # API list_path for single-argument cases
    if len(args) == 1:
        from pymarkdown.api import PyMarkdownApi, PyMarkdownApiException, PyMarkdownApiNoFilesFoundException

        build(sb, case["tree"])
        cwd = os.getcwd()
        os.chdir(sb.work)
        try:
            try:
                r = PyMarkdownApi().list_path(args[0], recurse_if_directory=case["recurse"], alternate_extensions=case["exts"])
                got = real(r.matching_files)
                if kind != "ok":
                    problems.add(f"api:files-returned-despite-{kind}")
                elif sorted(got) != sorted(want):
                    problems.add("api:" + ("extra-files" if set(got) - set(want) else "missing-files"))
            except PyMarkdownApiNoFilesFoundException:
                if kind == "ok":
                    problems.add("api:no-files-exception-for-valid-selection")
            except PyMarkdownApiException:
                if kind == "ok":
                    problems.add("api:exception-for-valid-selection")
        finally:
            os.chdir(cwd)
    kinds = set()
    for a in args:
        kinds.add("glob" if ("*" in a or "?" in a) else "dir" if os.path.isdir(os.path.join(sb.work, a)) else "file")
    nt = len(args) >= 2 and (len(kinds) >= 2 or len({a.strip("./") for a in args}) < len(args) or kind == "ok")
    return problems, nt


def campaign(payload):
    seed, n = payload
    sb = app.sandbox()
    out = {"n": 0, "nt": [], "fails": [], "labels": collections.Counter(), "samples": []}

    @hypothesis.seed(seed)
    @settings(max_examples=n, deadline=None, database=None, report_multiple_bugs=False, suppress_health_check=list(hypothesis.HealthCheck), phases=[hypothesis.Phase.generate])
    @given(case=case_st())
    def prop(case):
        problems, nt = judge(sb, case)
        out["n"] += 1
        exts = (case["exts"] or ".md").split(",")
        build(sb, case["tree"])
        kind, _ = model(sb.work, case["args"], case["recurse"], exts)
        out["labels"]["model:" + kind] += 1
        out["labels"]["nargs:" + str(len(case["args"]))] += 1
        if nt:
            out["nt"].append(json.dumps(case, sort_keys=True))
            if len(out["samples"]) < 3:
                out["samples"].append(case)
        for p in problems:
            out["fails"].append((p, {"kind": "discovery", **case}))

    prop()
    out["labels"] = dict(out["labels"])
    return out


def main(tier, seed):
    run = Run("C19", tier, seed)
    run.regressions(replay)
    shards, per = (8, 120) if tier == "quick" else (16, 4000)
    agg = {}
    for res in pool.run_jobs("vp.props.c19:campaign", [(seed * 100 + s, per) for s in range(shards)]):
        run.evaluations += res["n"]
        for k in res["nt"]:
            run.nontrivial(k)
        for k, v in res["labels"].items():
            run.labels[k] += v
        for s in res["samples"]:
            run.add_sample(s)
        for key, case in res["fails"]:
            agg.setdefault(key, []).append(case)
    for key, cases in sorted(agg.items()):
        if run.known.match_case(key):
            continue
        c = min(cases, key=lambda c: (len(c["tree"]), len(c["args"]), len(json.dumps(c))))
        c = dict(c, count_this_run=len(cases))
        run.violation(key, c)
    return run.finish(RULE, assumptions=["'each file once' is judged on real paths (the same file reached through two spellings counts once)",
                                         "an ineligible file that a glob happens to match is skipped silently (the user guide's own `./**` example matches such files); an ineligible file named literally is an error"])


def replay(case):
    sb = app.sandbox()
    problems, _ = judge(sb, {k: case[k] for k in ("tree", "args", "recurse", "exts")})
    return sorted(problems) or None
