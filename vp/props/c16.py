"""C16: all entry points agree (file scan, stdin scan, API); diagnostics change only diagnostics."""
import collections
import os
import subprocess
import sys

from .. import REPO_DIR, app, docprops, engine
from ..runner import Run, h64
from .c07 import CRASH_RE

PLAN = {"B2/853": 140, "B3/1409": 60, "N1/173": 200, "W1/32": 160, "S2/16": 100, "S3/4": 50, "I4/1553": 100, "U1/84": 50, "P2/36": 80, "R2/52": 60, "R3/36": 50, "Z1/16": 120, "Q2/20": 60, "P3/36": 60}
EVALUATOR = "vp.props.c16:ev"
RULE = (
    "documents = sub-lattices of the universes that parse and scan cleanly, in a line-ending / final-newline / non-ASCII variant chosen by source hash (as is, CR-LF, final newline toggled, "
    "non-ASCII paragraph appended, paragraph containing U+2028/FF/NEL/VT/U+2029/FS appended); one rule selection chosen by hash and expressed both on the command line and through the API (-d/-e vs disable/enable_rule_by_identifier, --set vs set_*_property); "
    "oracle: multiset of (line, column, rule id, description+extra, names) equal across `scan <file>`, `scan-stdin` (in-process; real subprocess with the bytes on stdin for CR-LF documents), "
    "PyMarkdownApi.scan_string and scan_path; fixed text equal between `fix <file>` and fix_string; one diagnostics variation (log level x --stack-trace x --log-file) leaves failure lines, "
    "exit status and fixed bytes unchanged; non-trivial = >=1 failure and (non-LF ending or no final newline or non-ASCII); distinct by (source hash, variant)"
)
LEVELS = ["DEBUG", "INFO", "WARNING", "ERROR", "CRITICAL", "DEBUG"]
SELECTIONS = [
    ([], lambda a: a),
    (["-d", "md041"], lambda a: a.disable_rule_by_identifier("md041")),
    (["-d", "first-line-heading,MD047"], lambda a: a.disable_rule_by_identifier("first-line-heading").disable_rule_by_identifier("MD047")),
    (["-e", "md002"], lambda a: a.enable_rule_by_identifier("md002")),
    (["--set", "plugins.md013.line_length=$#20"], lambda a: a.set_integer_property("plugins.md013.line_length", 20)),
    (["--set", "plugins.md009.strict=$!True"], lambda a: a.set_boolean_property("plugins.md009.strict", True)),
    (["--set", "plugins.md004.style=asterisk"], lambda a: a.set_string_property("plugins.md004.style", "asterisk")),
    (["--strict-config", "-d", "md013"], lambda a: a.enable_strict_configuration().disable_rule_by_identifier("md013")),
]


def variant(src, h):
    v = h % 5
    if v == 4:
        # legal text characters that str.splitlines() (but not the parser / file reader) treats as line breaks
        sep = ["\u2028", "\x0c", "\x85", "\x0b", "\u2029", "\x1c"][(h >> 3) % 6]
        return src + ("" if src.endswith("\n") or not src else "\n") + f"\nfirst part{sep}# second part{sep}\n", "unicode-line-separator-in-text"
    if v == 1:
        return src.replace("\n", "\r\n"), "crlf"
    if v == 2:
        return (src[:-1], "no-final-newline") if src.endswith("\n") else (src + "\n", "final-newline-added")
    if v == 3:
        return src + ("" if src.endswith("\n") or not src else "\n") + "\nçé 艨 \U0001f600 ünï  \n", "non-ascii"
    return src, "as-is"


def _api(sel):
    from pymarkdown.api import PyMarkdownApi

    return sel(PyMarkdownApi().log_error_and_above())


def _tuples_api(res):
    return collections.Counter((f.line_number, f.column_number, f.rule_id, f"{f.rule_description}{f.extra_error_information or ''} ({f.rule_name})") for f in res.scan_failures)


def _stdin_subprocess(data, args):
    env = dict(os.environ, PYTHONPATH=REPO_DIR, PYTHONIOENCODING="utf-8", PYTHONUTF8="1")
    p = subprocess.run([sys.executable, "-m", "pymarkdown"] + args + ["scan-stdin"], input=data.encode("utf-8"), capture_output=True, cwd=app.sandbox().work, env=env, check=False, timeout=120)
    return p.returncode, p.stdout.decode("utf-8", "replace"), p.stderr.decode("utf-8", "replace")


def _read_text(path):
    with open(path, "rt", encoding="utf-8") as f:
        return f.read()


def ev(src, opts, rank):
    import logging

    # diagnostics are under test here: the harness-wide logging.disable() must not hide what a
    # log level does to the run
    logging.disable(logging.NOTSET)
    try:
        return _ev(src, opts, rank)
    finally:
        logging.disable(logging.CRITICAL)
        logging.getLogger().setLevel(logging.WARNING)


def _ev(src, opts, rank):
    toks, psig, _ = docprops.guarded_parse(src)
    if toks is None:
        return "skip", "no-parse", False, ()
    if "\r" in src:
        return "skip", "excluded:base already has CR", False, ()
    h = h64(src)
    doc, vname = variant(src, h)
    if toks is not None and doc != src:
        t2, ps2, _ = docprops.guarded_parse(doc.replace("\r\n", "\n"))
        if t2 is None:
            return "skip", "variant-no-parse", False, ()
    cli_sel, api_sel = SELECTIONS[(h >> 4) % len(SELECTIONS)]
    sb = app.sandbox()
    sb.clear()
    path = sb.write("t.md", doc)
    code, out, err = app.main_guarded(cli_sel + ["scan", "t.md"], cwd=sb.work)
    if code == "hang" or CRASH_RE.search(err) or code not in (0, 1) or ("Error" in err and "INLINE" not in err):
        return "skip", "scan-error (C07's)", False, ()
    ffile = collections.Counter((f[1], f[2], f[3], f[4]) for f in app.parse_failures(out)[0])
    problems = set()
    labels = [vname]
    # stdin
    if doc.strip():
        if "\r" in doc:
            c2, o2, e2 = _stdin_subprocess(doc, cli_sel)
        else:
            c2, o2, e2 = app.main_guarded(cli_sel + ["scan-stdin"], stdin_text=doc, cwd=sb.work)
        fstdin = collections.Counter((f[1], f[2], f[3], f[4]) for f in app.parse_failures(o2)[0])
        if fstdin != ffile:
            problems.add("stdin-differs")
        elif c2 != code:
            problems.add("stdin-exit-differs")
        # API
        from pymarkdown.api import PyMarkdownApiException

        try:
            r = _api(api_sel).scan_string(doc)
            if _tuples_api(r) != ffile:
                problems.add("api-scan_string-differs")
        except PyMarkdownApiException as e:
            problems.add("api-scan_string-raises")
    try:
        from pymarkdown.api import PyMarkdownApiException

        r = _api(api_sel).scan_path(path)
        if _tuples_api(r) != ffile:
            problems.add("api-scan_path-differs")
    except PyMarkdownApiException:
        problems.add("api-scan_path-raises")
    # fix: in place vs fix_string
    fc, fo, fe = app.main_guarded(cli_sel + ["fix", "t.md"], cwd=sb.work)
    # the API hands back the text as read in text mode (universal newlines); read the file
    # fixed in place the same way so that only content, not newline representation, is compared
    fixed_file = _read_text(path)
    fix_ok = fc in (0, 3) and not ("Error" in fe)
    if fix_ok and doc.strip():
        try:
            fr = _api(api_sel).fix_string(doc)
            if fr.fixed_file != fixed_file:
                problems.add("fix_string-differs")
            if bool(fr.was_fixed) != (fc == 3):
                problems.add("fix_string-flag-differs")
        except PyMarkdownApiException:
            problems.add("fix_string-raises")
    # diagnostics variation
    lvl = LEVELS[(h >> 9) % len(LEVELS)]
    diag = ["--log-level", lvl]
    if (h >> 13) % 2:
        diag.append("--stack-trace")
    if (h >> 14) % 2:
        diag += ["--log-file", os.path.join(sb.tmp, "log.txt")]
    sb.write("t.md", doc)
    dc, do, de = app.main_guarded(diag + cli_sel + ["scan", "t.md"], cwd=sb.work)
    fdiag = collections.Counter((f[1], f[2], f[3], f[4]) for f in app.parse_failures(do)[0])
    if fdiag != ffile:
        problems.add("diagnostics-change-failures")
    elif dc != code:
        problems.add("diagnostics-change-exit")
    if fix_ok:
        sb.write("t.md", doc)
        xc, xo, xe = app.main_guarded(diag + cli_sel + ["fix", "t.md"], cwd=sb.work)
        if _read_text(path) != fixed_file or xc != fc:
            problems.add("diagnostics-change-fix")
    labels.append("diag:" + lvl)
    nt = bool(ffile) and vname != "as-is"
    if problems:
        return "fail", f"{vname}|" + ";".join(sorted(problems)), nt, labels
    return "pass", None, nt, labels


def main(tier, seed):
    run = Run("C16", tier, seed)
    run.regressions(replay)
    import logging

    engine.run_universes(run, EVALUATOR, PLAN, tier, seed, chunk=30)
    return run.finish(RULE, assumptions=["API preconditions respected: scan_string/fix_string are not given blank strings", "scan-stdin is run as a real subprocess only for CR-LF documents (stdin newline translation); in-process otherwise"])


def replay(case):
    return engine.replay_doc(EVALUATOR, case)
