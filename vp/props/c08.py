"""C08: fix preserves meaning — fingerprint through an independent renderer is unchanged."""
from .. import app, docprops, drive, engine, fixlib
from ..oracles import cmark, fingerprint, htmlnorm
from ..runner import Run

PLAN = {"B2/53": 800, "B3/89": 400, "B4/83": 200, "N1/11": 1000, "W1/2": 800, "S2": 600, "S3": 120, "I4/97": 400, "I6": 200, "H4/3": 200, "P2": 500, "R2/3": 400, "R3": 500, "K7": 600, "T4/5": 200, "Z1": 800, "Q2": 600, "P3": 600, "E1/211": 400, "M3/3": 500, "L6": 500, "G2": 400, "H6": 300, "L7": 600}
EVALUATOR = "vp.props.c08:ev"
# second pass: documented configuration values of the fix-capable rules (rule alone), keyed `<universe>#cfg`
PLAN_CFG = {"Z1#cfg": 500, "Q2#cfg": 300, "T4/5#cfg": 150, "L6#cfg": 300, "M3/3#cfg": 200, "N1/11#cfg": 400, "W1/2#cfg": 300, "B3/89#cfg": 200, "R3#cfg": 150, "H4/3#cfg": 100, "P3#cfg": 200, "G2#cfg": 300}
EVALUATORS = {"#cfg": "vp.props.c08:ev_cfg"}
RULE = (
    "documents = sub-lattices of the bounded universes on which C03's oracle holds (PyMarkdown's and the independent parser's HTML agree) and that scan cleanly; configurations: default rule set, "
    "up to 2 single fix-capable rules and 1 pair chosen among rules reporting on the document; second pass (`#cfg`): up to 3 documented non-default configuration values of one fix-capable rule, rule alone (md004 styles, md007 indent / start_indented, md009 br_spaces / strict, md010 code_blocks, md012 maximum, md029 styles, md030 spacings, md031 list_items, md035 styles, md044 names, md046 / md048 styles), on documents containing the construct; oracle: fingerprint(markdown-it render of d) == fingerprint(render of fix(d)) where the fingerprint "
    "drops only the freedoms documented for the rules that reported (oracles/fingerprint.py); non-trivial = fix changed the file; distinct by (source hash, configuration)"
)


def c03_holds(src, tokens):
    if cmark.excluded(src):
        return False
    try:
        html = drive.Parser.html(tokens)
    except Exception:
        return False
    return htmlnorm.events(html) == htmlnorm.events(cmark.render(src))


def ev(src, opts, rank):
    toks, psig, _ = docprops.guarded_parse(src)
    if toks is None:
        return "skip", "no-parse", False, ()
    if not c03_holds(src, toks):
        return "skip", "C03 precondition (independent parser disagrees on the original)", False, ()
    base = fixlib.scan_ok(src, [])
    if base is None:
        return "skip", "scan-error (C07's)", False, ()
    return _judge(src, base, fixlib.configs_for(src, base))


def ev_cfg(src, opts, rank):
    """the same oracle under documented non-default configuration values of one fix-capable rule (rule alone)"""
    toks, psig, _ = docprops.guarded_parse(src)
    if toks is None:
        return "skip", "no-parse", False, ()
    cfgs = fixlib.cfg_configs_for(src)
    if not cfgs:
        return "skip", "no configurable construct in the document", False, ()
    if not c03_holds(src, toks):
        return "skip", "C03 precondition (independent parser disagrees on the original)", False, ()
    return _judge(src, None, cfgs)


def _judge(src, base, configs):
    problems = set()
    nt = False
    labels = []
    for name, args, rules in configs:
        kind = name.split(":")[0]
        if kind == "cfg":
            base = fixlib.scan_ok(src, args)
            if base is None:
                labels.append("scan-error-skipped")
                continue
        f1 = fixlib.fix_once(src, args)
        if f1["error"]:
            labels.append("fix-error-skipped")
            continue
        if f1["text"] == src:
            labels.append(f"{kind}:unchanged")
            continue
        nt = True
        fired = frozenset(f[2].lower() for f in base if rules is None or f[2].lower() in rules)
        a = fingerprint.fingerprint(src, fired)
        b = fingerprint.fingerprint(f1["text"], fired)
        labels.append(f"{kind}:changed")
        if a != b:
            tag = name if kind != "default" else "default"
            problems.add(f"{tag}|{htmlnorm.diff_class(a, b)}")
    if problems:
        return "fail", ";".join(sorted(problems)), nt, labels
    return "pass", None, nt, labels


def main(tier, seed):
    run = Run("C08", tier, seed)
    run.regressions(replay)
    engine.run_universes(run, EVALUATOR, PLAN, tier, seed, chunk=40)
    engine.run_universes(run, EVALUATORS["#cfg"], PLAN_CFG, tier, seed, chunk=40)
    return run.finish(RULE, assumptions=["trusted base: vendored markdown-it-py as renderer of both versions", "freedoms are granted per rule that reported on the original (fingerprint.py docstring)", "fix runs that end in an error are C15's"])


def replay(case):
    return engine.replay_doc(EVALUATORS["#cfg"] if "#cfg" in str(case.get("universe", "")) else EVALUATOR, case)
