"""C10: fix reporting is truthful and scan is read-only."""
import re

from .. import app, engine, fixlib
from ..runner import Run, h64

PLAN = {"B2/53": 300, "B3/89": 180, "N1/11": 420, "W1/2": 360, "S2": 240, "S3": 60, "I4/97": 120, "U1/7": 60, "P2": 180, "R2/3": 200, "Z1": 300, "Q2/3": 150, "P3/5": 120}
EVALUATOR = "vp.props.c10:ev"
RULE = (
    "file sets of 3: the universe document plus two companions drawn by source hash from a pool of clean / unfixable-failure / fixable documents, placed before and after it in "
    "processing order; `fix` under both return-code schemes (argument and mode.return_code_scheme via --set), then `scan`, `scan --list-files`, `fix --list-files`, `scan-stdin` (also with input that cannot be encoded as UTF-8); oracle: "
    "hash snapshot of the private working and temp directories before/after: changed(f) <=> 'Fixed: f' printed, exit==3 (default) / 0 (minimal) <=> some file changed, a file whose "
    "prior scan shows no failure from a fix-capable rule is byte-identical, no file created or left behind; read-only commands leave both directories identical; non-trivial = "
    "the set contains a file that changes and one that does not; distinct by (source hash, scheme)"
)
POOL = [
    ("clean", "# Title\n\nSome text.\n"),
    ("clean2", "Title\n=====\n\n- a\n- b\n"),
    ("unfixable", "# Title\n\n## Sub\n\n## Sub\n\ntext\n"),
    ("unfixable2", "Just text that is not a heading\n"),
    ("fixable", "#  Title\n\nText.   \n"),
    ("fixable2", "# Title\n\n* a\n- b\n\n\n\ntext\n"),
    ("fixable3", "# T\n\n1. a\n1. b\n3. c\n"),
    ("mixed", "# Title\n\n### Skip\n\ntext\ttab\n"),
]
FIXED_RE = re.compile(r"^Fixed: (.*)$", re.M)


def _files(src):
    h = h64(src)
    a = POOL[h % len(POOL)]
    c = POOL[(h >> 8) % len(POOL)]
    return [("a.md", a[1]), ("b.md", src), ("c.md", c[1])]


def ev(src, opts, rank):
    from .. import docprops

    toks, psig, _ = docprops.guarded_parse(src)
    if toks is None:
        if psig and psig.startswith("exc:") and src.strip():
            # a document that aborts the scan: the read-only commands must still leave nothing behind
            return _readonly_only(src)
        return "skip", "no-parse", False, ()
    if "\r" in src:
        return "skip", "excluded:carriage return (line-ending translation is C16's)", False, ()
    base = fixlib.scan_ok(src, [])
    if base is None:
        return "skip", "scan-error (C07's)", False, ()
    _, _, fixable, _ = app.rule_table()
    files = _files(src)
    prior_fixable = {}
    for name, text in files:
        fl = fixlib.scan_ok(text, []) if name != "b.md" else base
        prior_fixable[name] = None if fl is None else any(f[2].lower() in fixable for f in fl)
    sb = app.sandbox()
    problems = set()
    nt = False
    labels = []
    h = h64(src)
    schemes = [("default", []), ("minimal", ["--return-code-scheme", "minimal"]), ("minimal-set", ["--set", "mode.return_code_scheme=minimal"])]
    for sname, sargs in (schemes[0], schemes[1 + (h >> 3) % 2]):
        sb.clear()
        for name, text in files:
            sb.write(name, text)
        before = sb.snapshot()
        code, out, err = app.main_guarded(sargs + ["fix", "a.md", "b.md", "c.md"], cwd=sb.work)
        after = sb.snapshot()
        if code == "hang" or fixlib.ERR_RE.search(err) or fixlib.ERR_RE.search(out) or code not in (0, 3):
            labels.append("fix-error-skipped")
            continue
        changed = {k for k in before if after.get(k) != before[k]}
        created = set(after) - set(before)
        if created:
            problems.add(f"{sname}|file-created-or-left:{'tmp' if any(c.startswith('t/') for c in created) else 'work'}")
        changed_names = {k[2:] for k in changed if k.startswith("w/")}
        announced = {m.strip() for m in FIXED_RE.findall(out)}
        announced = {a.replace("\\", "/").split("/")[-1] for a in announced}
        if changed_names != announced:
            problems.add(f"{sname}|{'changed-not-announced' if changed_names - announced else 'announced-not-changed'}")
        want = (3 if changed_names else 0) if sname == "default" else 0
        if code != want:
            problems.add(f"{sname}|exit-{code}-want-{want}")
        for name, _ in files:
            if prior_fixable[name] is False and name in changed_names:
                problems.add(f"{sname}|changed-without-fixable-failure")
        if changed_names and len(changed_names) < 3:
            nt = True
        labels.append(f"changed={len(changed_names)}")
    # read-only commands
    sb.clear()
    for name, text in files:
        sb.write(name, text)
    before = sb.snapshot()
    for cname, argv, stdin in (
        ("scan", ["scan", "a.md", "b.md", "c.md"], None),
        ("scan-l", ["scan", "--list-files", "."], None),
        ("fix-l", ["fix", "--list-files", "."], None),
        ("stdin", ["scan-stdin"], src),
        # input that cannot be encoded as UTF-8 (a lone surrogate, what undecodable bytes on a real stdin become under
        # surrogateescape): the run ends in an error, and must still leave nothing behind
        ("stdin-unencodable", ["scan-stdin"], src + "\udcff\n"),
    ):
        if cname == "stdin" and not src.strip():
            continue
        code, out, err = app.main_guarded(argv, stdin_text=stdin, cwd=sb.work)
        after = sb.snapshot()
        if after != before:
            what = "created" if set(after) - set(before) else "modified"
            where = "tmp" if any(k.startswith("t/") for k in (set(after) ^ set(before)) | {k for k in before if after.get(k) != before[k]}) else "work"
            problems.add(f"readonly:{cname}|{what}-{where}")
            sb.clear()
            for name, text in files:
                sb.write(name, text)
            before = sb.snapshot()
    if problems:
        return "fail", ";".join(sorted(problems)), nt, labels
    return "pass", None, nt, labels


def _readonly_only(src):
    sb = app.sandbox()
    sb.clear()
    sb.write("b.md", src)
    before = sb.snapshot()
    problems = set()
    for cname, argv, stdin in (("scan", ["scan", "b.md"], None), ("stdin", ["scan-stdin"], src), ("scan-l", ["scan", "-l", "b.md"], None)):
        code, out, err = app.main_guarded(argv, stdin_text=stdin, cwd=sb.work)
        after = sb.snapshot()
        if after != before:
            problems.add(f"readonly-abort:{cname}|{'created' if set(after) - set(before) else 'modified'}")
            sb.clear()
            sb.write("b.md", src)
            before = sb.snapshot()
    if problems:
        return "fail", ";".join(sorted(problems)), True, ("abort-doc",)
    return "pass", None, True, ("abort-doc",)


def main(tier, seed):
    run = Run("C10", tier, seed)
    run.regressions(replay)
    engine.run_universes(run, EVALUATOR, PLAN, tier, seed, chunk=40)
    return run.finish(RULE, assumptions=["runs that end in an application error are C15's (skipped, counted)", "file sets are 3 files with hash-chosen companions, not all small sets"])


def replay(case):
    return engine.replay_doc(EVALUATOR, case)
