"""C12: rules are independent — failures(S) == multiset-union of failures({r}) for r in S."""
import collections

from .. import app, docprops, engine
from ..runner import Run, h64
from .c07 import CRASH_RE, alone_args

PLAN = {"B2/211": 160, "B3/353": 100, "N1/43": 220, "W1/8": 180, "S2/4": 120, "S3": 40, "I4/389": 60, "X2/9": 40, "H4/5": 60, "P2/9": 60, "T4/37": 40, "Z1/4": 150, "Q2/9": 60, "P3/17": 60, "M3/97": 40, "L6/17": 40}
EVALUATOR = "vp.props.c12:ev"
RULE = (
    "documents = sub-lattices of the bounded universes that parse; per document every registered rule (46, md999 excluded) is scanned alone, then the "
    "default set, all rules, and the default set minus k rules chosen by source hash (k=4); plus, when a line carries failures of >= 2 rules, the same law on the document with a disable-next-line pragma naming the last-sorted of them, and (one document in three) on the document behind a YAML front-matter block without title with the front-matter extension enabled; oracle: multiset of (line, column, rule id, text) "
    "under each set equals the union of the alone-results of its members; non-trivial = >=3 rules report on the document; distinct by source hash"
)


def _scan(src, args):
    code, fails, err, out = app.scan_text(src, pre_args=args)
    if code == "hang" or CRASH_RE.search(err) or "Error" in err and "INLINE" not in err:
        return None
    return collections.Counter(fails)


def ev(src, opts, rank):
    toks, psig, _ = docprops.guarded_parse(src)
    if toks is None:
        return "skip", "no-parse", False, ()
    ids, dflt, _, _ = app.rule_table()
    ids = [i for i in ids if i != "md999"]
    base = {}
    for r in ids:
        b = _scan(src, alone_args(r))
        if b is None:
            return "skip", "scan-error (C07's)", False, ()
        wrong = {f[2].lower() for f in b} - {r}
        if wrong:
            return "fail", f"alone:{r}|reports-other:{','.join(sorted(wrong))}", True, ()
        base[r] = b
    reporting = [r for r in ids if base[r]]
    nt = len(reporting) >= 3
    k = 4
    h = h64(src)
    dl = sorted(dflt)
    minus = sorted({dl[(h >> (5 * j)) % len(dl)] for j in range(k)} | set(reporting[:2]) & set(dl))
    sets = [("default", [], set(dflt)), ("all", ["-e", ",".join(i for i in ids if i not in dflt)], set(ids))]
    for m in minus:
        sets.append((f"default-minus", ["-d", m], set(dflt) - {m}))
    problems = set()
    for name, args, members in sets:
        got = _scan(src, args)
        if got is None:
            return "skip", "scan-error (C07's)", False, ()
        want = collections.Counter()
        for r in members & set(ids):
            want.update(base[r])
        if got != want:
            diff_rules = sorted({f[2] for f in (got - want)} | {f[2] for f in (want - got)})
            kind = ("extra" if got - want else "") + ("missing" if want - got else "")
            problems.add(f"{name}|{kind}:{','.join(diff_rules)}")
    labels = [f"rules_reporting={min(len(reporting), 6)}"]
    # variant with a pragma: the line with most failures gets a disable-next-line pragma naming the rule whose failure
    # sorts LAST on that line; the union law must hold for the pragma-bearing document too (suppression is per rule)
    allf = collections.Counter()
    for r in ids:
        allf.update(base[r])
    per_line = collections.defaultdict(list)
    for (ln, col, rid, txt) in allf:
        per_line[ln].append((col, rid))
    multi = {ln: sorted(v) for ln, v in per_line.items() if len({x[1] for x in v}) >= 2}
    if multi and "<!--" not in src and "\r" not in src:
        ln = max(multi, key=lambda k: (len(multi[k]), -k))
        named = multi[ln][-1][1].lower()
        lines = src.split("\n")
        if 1 <= ln <= len(lines):
            lines.insert(ln - 1, f"<!-- pyml disable-next-line {named}-->")
            d2 = "\n".join(lines)
            all_args = ["-e", ",".join(i for i in ids if i not in dflt)]
            got = _scan(d2, all_args)
            if got is not None:
                want = collections.Counter()
                ok = True
                for r in sorted(set(reporting) | {f[2].lower() for f in got}):
                    if r not in ids:
                        continue
                    b = _scan(d2, alone_args(r))
                    if b is None:
                        ok = False
                        break
                    want.update(b)
                if ok:
                    labels.append("pragma-variant")
                    if got != want:
                        diff_rules = sorted({f[2] for f in (got - want)} | {f[2] for f in (want - got)})
                        problems.add("pragma-variant|" + ("extra" if got - want else "") + ("missing" if want - got else "") + ":" + ",".join(diff_rules))
    # variant with the front-matter extension enabled and a YAML block without a `title` key in front of the document
    # (one document in three): rules that look at the front-matter token must not change what other rules see
    if h % 3 == 0 and not src.startswith("---") and "\r" not in src:
        d3 = "---\nauthor: x\n---\n" + src
        fm = ["--set", "extensions.front-matter.enabled=$!True"]
        got = _scan(d3, fm + ["-e", ",".join(i for i in ids if i not in dflt)])
        if got is not None:
            want = collections.Counter()
            ok = True
            for r in sorted(set(reporting) | {f[2].lower() for f in got} | {"md001", "md025", "md041"}):
                if r not in ids:
                    continue
                b = _scan(d3, fm + alone_args(r))
                if b is None:
                    ok = False
                    break
                want.update(b)
            if ok:
                labels.append("front-matter-variant")
                if got != want:
                    diff_rules = sorted({f[2] for f in (got - want)} | {f[2] for f in (want - got)})
                    problems.add("front-matter-variant|" + ("extra" if got - want else "") + ("missing" if want - got else "") + ":" + ",".join(diff_rules))
    if problems:
        return "fail", ";".join(sorted(problems)), nt, labels
    return "pass", None, nt, labels


def main(tier, seed):
    run = Run("C12", tier, seed)
    run.regressions(replay)
    opts = None
    engine.run_universes(run, EVALUATOR, PLAN, tier, seed, opts=opts, chunk=8)
    return run.finish(RULE, assumptions=["documents whose scan ends in a plugin failure are C07's (skipped, counted)", "md999 (debug-only plugin) is not a rule and is left out"])


def replay(case):
    return engine.replay_doc(EVALUATOR, case)
