"""C20: extensions are inert unless enabled and needed; front matter only shifts lines."""
import re

from .. import docprops, drive, engine
from ..oracles import cmark, htmlnorm
from ..runner import Run, h64

EXT = ["front-matter", "markdown-strikethrough", "markdown-task-list-items", "markdown-extended-autolinks", "markdown-disallow-raw-html", "linter-pragmas"]
PLAN = {"X2": 2500, "B2/11": 2500, "N1/3": 2500, "W1": 1500, "S2": 1200, "I4/19": 1500, "U1/7": 300, "B3/19": 800, "X3/9": 1500}
EVALUATOR = "vp.props.c20:ev"
RULE = (
    "documents = ranks of the bounded universes incl. the extension-syntax universe X2 (~~a~~, task items, www./http/e-mail/xmpp autolinks, <script>/<title>, pragma lines, ---/YAML lines); "
    "(E1) all six extensions off: HTML equals the independent CommonMark implementation's (C03's oracle) even on documents full of extension syntax; (E2) for 6 extension subsets S chosen by source hash "
    "(plus the full and the empty set): parse_S(d) == parse_{S restricted to extensions whose trigger syntax occurs in d}(d), compared on serialised tokens and HTML (trigger predicates are syntactic: '~'; '[ ]'/'[x]'; "
    "'www.'/'http'/'ftp'/'@'/'mailto:'/'xmpp:'; '<' + one of the nine disallowed tag names; a line starting '<!--' containing 'pyml'; first line starting '---'); (E3) front matter enabled and d = block ++ rest with a block PyYAML accepts as a mapping: "
    "tokens(d) == [front-matter] ++ tokens(rest) with line numbers shifted by the block length; with a block PyYAML rejects: tokens_on(d) == tokens_off(d); "
    "non-trivial = the document contains the trigger syntax of an extension switched between the compared configurations, or a front-matter block; distinct by source hash"
)
POS = re.compile(r"\((\d+),(\d+)\)")
FM_BLOCKS = ["title: x", "a: b\nc: d", "a: |\n  ---\nb: c", "k: [1, 2]\nz: 'q'", "a:\n  - x\n  - y", "body: >\n  folded\n  ---\nend: 1", "a: b   ", "t: \"---\"",
             "not yaml: [", "just text", "- a\n- b", "a: b\n ---\nc: d", "\ta: b", "a: *unknown"]


def triggers(src):
    t = set()
    if "~" in src:
        t.add("markdown-strikethrough")
    if re.search(r"\[[ xX]\]", src):
        t.add("markdown-task-list-items")
    if re.search(r"www\.|http|ftp|@|mailto:|xmpp:", src, re.I):
        t.add("markdown-extended-autolinks")
    if re.search(r"<\s*/?\s*(title|textarea|style|xmp|iframe|noembed|noframes|script|plaintext)\b", src, re.I):
        t.add("markdown-disallow-raw-html")
    if re.search(r"^<!--.*pyml", src, re.M):
        t.add("linter-pragmas")
    if src.startswith("---"):
        t.add("front-matter")
    return t


def parser_for(subset):
    exts = tuple(e for e in EXT[:5] if e in subset)
    return drive.get_parser(exts, pragmas="linter-pragmas" in subset)


def parse(src, subset):
    """-> (serialised tokens, html) or (None, sig)"""
    p = parser_for(subset)
    try:
        with drive.cpu_guard(docprops.BACKSTOP_CPU_S):
            toks = docprops._WC.run(lambda: p.parse(src, eos=False), budget=docprops.work_budget(len(src)) * 2)
            html = drive.Parser.html(toks)
    except (drive.WorkBudgetExceeded, drive.HangTimeout, RecursionError, MemoryError):
        return None, "hang"
    except Exception as e:
        return None, "exc:" + drive.call_site(e)
    return [str(t) for t in toks], html


def subsets_for(src):
    h = h64(src)
    out = [frozenset(), frozenset(EXT)]
    for j in range(6):
        bits = (h >> (6 * j)) & 63
        out.append(frozenset(e for i, e in enumerate(EXT) if bits >> i & 1))
    return list(dict.fromkeys(out))


def shift(tokens, n):
    return [POS.sub(lambda m: f"({int(m.group(1)) + n},{m.group(2)})", t) for t in tokens]


def ev(src, opts, rank):
    problems = set()
    nt = False
    trig = triggers(src)
    base = {}
    # E2
    for S in subsets_for(src):
        R = frozenset(S & trig)
        for X in (S, R):
            if X not in base:
                base[X] = parse(src, X)
        a, b = base[S], base[R]
        if a[0] is None or b[0] is None:
            if (a[0] is None) != (b[0] is None):
                problems.add("E2:parse-failure-depends-on-untriggered-extension")
            continue
        if S != R and (set(S) ^ set(R)):
            if a[0] != b[0]:
                off = sorted(set(S) - set(R))
                problems.add("E2:tokens-differ:" + "+".join(e.split("-")[-1] for e in off)[:40])
            elif a[1] != b[1]:
                problems.add("E2:html-differs")
        if trig:
            nt = True
    # E1: everything off -> CommonMark
    none = base.get(frozenset()) or parse(src, frozenset())
    if none[0] is not None and not cmark.excluded(src):
        if htmlnorm.events(none[1]) != htmlnorm.events(cmark.render(src)):
            problems.add("E1:" + ("html-differs-from-commonmark-with-extension-syntax" if trig else "html-differs-from-commonmark"))
    # E3: front matter
    import yaml

    h = h64(src)
    block = FM_BLOCKS[h % len(FM_BLOCKS)]
    if "\r" not in src:
        fm_src = "---\n" + block + "\n---\n" + src
        try:
            loaded = yaml.safe_load(block)
            valid = isinstance(loaded, dict)
            undecided = not valid and loaded is not None
        except yaml.YAMLError:
            valid, undecided = False, False
        on = frozenset(["front-matter"])
        if not undecided:
            nt = True
            t_on = parse(fm_src, on)
            if valid:
                t_rest = parse(src, on if not src.startswith("---") else frozenset())
                if t_on[0] is not None and t_rest[0] is not None:
                    nlines = block.count("\n") + 3
                    if not t_on[0] or not t_on[0][0].startswith("[front-matter"):
                        problems.add("E3:valid-block-not-recognised")
                    elif t_on[0][1:] != shift(t_rest[0], nlines):
                        problems.add("E3:rest-differs-from-shifted-parse")
                elif (t_on[0] is None) != (t_rest[0] is None):
                    problems.add("E3:parse-failure-only-with-front-matter")
            else:
                t_off = parse(fm_src, frozenset())
                if t_on[0] is not None and t_off[0] is not None:
                    if t_on[0] != t_off[0]:
                        problems.add("E3:invalid-block-changes-parse")
                elif (t_on[0] is None) != (t_off[0] is None):
                    problems.add("E3:invalid-block-parse-failure-differs")
    if problems:
        return "fail", ";".join(sorted(problems)), nt, ()
    return "pass", None, nt, ("triggers=" + str(len(trig)),)


def main(tier, seed):
    run = Run("C20", tier, seed)
    run.regressions(replay)
    engine.run_universes(run, EVALUATOR, PLAN, tier, seed, chunk=100, first={"X2": 35})
    return run.finish(RULE, assumptions=["E1 is relative to the vendored independent CommonMark implementation (C03's trusted base and exclusions)", "front-matter validity is decided by PyYAML safe_load returning a mapping, as the extension's documentation delegates; blocks that load to a non-mapping are not judged", "the YAML pair 'test: assert' (a deliberate self-test hook of the extension) is never generated"])


def replay(case):
    return engine.replay_doc(EVALUATOR, case)
