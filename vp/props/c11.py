"""C11: pragmas suppress exactly what they name and are invisible to the parser."""
import collections
import re

from .. import app, docprops, engine
from ..runner import Run, h64
from .c07 import CRASH_RE

PLAN = {"B2/53": 699, "B3/89": 500, "N1/11": 900, "W1/2": 699, "S2": 500, "S3": 120, "I4/97": 200, "B4/83": 200, "H4/3": 200, "P2": 400, "R2/3": 200, "R3": 150, "T4/7": 150, "Z1": 600, "Q2": 400, "P3/2": 300, "E1/211": 300, "L6/3": 150, "G2/3": 150, "L7/5": 150}
EVALUATOR = "vp.props.c11:ev"
RULE = (
    "base documents = sub-lattices of the bounded universes that parse, scan cleanly and contain no pragma; for 2 insertion points per document (chosen by source hash "
    "among all line boundaries, biased to lines that carry a failure) a pragma line is inserted: disable-next-line / disable-num-lines N (N in 1,2,3,99) naming the rule "
    "that fails there (id in lower/upper case or an alias, optionally with a second id) and one malformed pragma; both comment prefixes; oracles: (P1) token stream equals "
    "the base stream with later line numbers +1, (P2) failures equal the shifted base failures minus exactly (named rule, covered line), (P3) a malformed pragma suppresses "
    "nothing and yields exactly one INLINE error on its line; (P4) fix mode: two pragma lines with anchor paragraphs appended after the document stay directly above their anchors and fix(d with pragmas) minus the pragma lines == fix(d); non-trivial = a failure is suppressed AND another failure survives; distinct by (source hash, insertion, pragma)"
)
PRAGMA_LIKE = re.compile(r"<!--")
POS = re.compile(r"\((\d+),(\d+)\)")
MALFORMED = ["pyml ", "pyml bad", "pyml disable-next-line", "pyml disable-next-line nope-rule", "pyml disable-num-lines a md013",
             "pyml disable-num-lines 0 md013", "pyml disable-num-lines -1 md013", "pyml disable-num-lines 2", "pyml disable-num-lines 2 nope-rule"]


def shift_tokens(tokens, k):
    """Serialised tokens with every (line, col) whose line >= k moved down one line."""
    out = []
    for t in tokens:
        if t.token_name == "pragma":
            continue
        s = str(t)
        out.append(POS.sub(lambda m: f"({int(m.group(1)) + 1},{m.group(2)})" if int(m.group(1)) >= k else m.group(0), s))
    return out


def ser(tokens):
    return [str(t) for t in tokens if t.token_name != "pragma"]


def insert(src, k, line):
    lines = src.split("\n")
    lines.insert(k - 1, line)
    return "\n".join(lines)


def spell(rule_id, h, names):
    m = h % 4
    if m == 0:
        return rule_id.lower()
    if m == 1:
        return rule_id.upper()
    if m == 2:
        return rule_id.capitalize()
    al = names.get(rule_id.lower()) or [rule_id]
    return al[(h >> 3) % len(al)]


def _scan(src):
    code, fails, err, out = app.scan_text(src)
    if code == "hang" or CRASH_RE.search(err) or "Error" in err:
        return None, err
    return fails, err


def ev(src, opts, rank):
    if PRAGMA_LIKE.search(src):
        return "skip", "excluded:base document already contains a comment/pragma", False, ()
    if "\r" in src:
        return "skip", "excluded:carriage return", False, ()
    toks, psig, _ = docprops.guarded_parse(src, eos=True)
    if toks is None:
        return "skip", "no-parse", False, ()
    base_fails, err = _scan(src)
    if base_fails is None:
        return "skip", "scan-error (C07's)", False, ()
    if err.strip():
        return "skip", "base scan has stderr", False, ()
    _, _, _, names = app.rule_table()
    lines = src.split("\n")
    n = len(lines)
    h = h64(src)
    fail_lines = sorted({f[0] for f in base_fails if 1 <= f[0] <= n})
    ks = []
    if fail_lines:
        ks.append(fail_lines[h % len(fail_lines)])
    ks.append(1 + (h >> 7) % n)
    if opts and opts.get("all_points"):
        ks = list(range(1, n + 1))
    problems = set()
    nt = False
    labels = []
    for idx, k in enumerate(dict.fromkeys(ks)):
        hk = h64(f"{h}:{k}")
        at_k = [f for f in base_fails if f[0] == k]
        rid = (at_k[hk % len(at_k)][2] if at_k else ["md013", "md009", "md022", "md041"][hk % 4]).lower()
        ident = spell(rid, hk >> 5, names)
        if (hk >> 9) % 3 == 0:
            ident = ident + "," + ["md047", "MD010", "no-hard-tabs"][(hk >> 11) % 3]
        extra_ids = {"md047": "md047", "MD010": "md010", "no-hard-tabs": "md010"}
        named = {rid} | {v for kx, v in extra_ids.items() if kx in ident.split(",")[1:]}
        # both documented comment prefixes; the line always ends with "-->" (the documented regular
        # expression; the prose's "--->" ending is not part of the property and is not parsed that way)
        pre, post = [("<!-- ", "-->"), ("<!--- ", "-->"), ("<!--", " -->"), ("<!---", "-->")][(hk >> 13) % 4]
        cmds = [("next", f"pyml disable-next-line {ident}", 1)]
        N = [1, 2, 3, 99][(hk >> 17) % 4]
        cmds.append(("num", f"pyml disable-num-lines {N} {ident}", N))
        cmds.append(("bad", MALFORMED[(hk >> 21) % len(MALFORMED)], 0))
        # (P3) two stacked pragmas: a disable-num-lines window that contains a disable-next-line for
        # ANOTHER rule; both name failures of the target line when the line has two failing rules
        other = sorted({f[2].lower() for f in at_k} - {rid})
        rid2 = other[hk % len(other)] if other else ("md010" if rid != "md010" else "md013")
        cmds.append(("stack", (f"pyml disable-num-lines 2 {ident}", f"pyml disable-next-line {spell(rid2, hk >> 6, names)}"), 0))
        shifted = [((f[0] + 1) if f[0] >= k else f[0], f[1], f[2], f[3]) for f in base_fails]
        first = True
        for kind, cmd, cover in cmds:
            if kind == "stack":
                d2 = insert(insert(src, k, pre + cmd[1] + post), k, pre + cmd[0] + post)
                got, err2 = _scan(d2)
                if got is None:
                    problems.add("P3:stack:scan-error")
                    continue
                sh2 = [((f[0] + 2) if f[0] >= k else f[0], f[1], f[2], f[3]) for f in base_fails]
                want = [f for f in sh2 if not (f[0] == k + 2 and f[2].lower() in (named | {rid2}))]
                if collections.Counter(got) != collections.Counter(want):
                    g, w = collections.Counter(got), collections.Counter(want)
                    problems.add("P3:stack:" + ("over" if w - g else "") + ("under" if g - w else "") + "-suppressed")
                if [l for l in err2.split("\n") if l.strip()]:
                    problems.add("P3:stack:unexpected-stderr")
                labels.append("stack:" + ("two-rules" if len({f[2] for f in sh2} - {f[2] for f in want}) >= 2 else "other"))
                continue
            pline = pre + cmd + post
            d2 = insert(src, k, pline)
            if first:
                first = False
                t2, psig2, _ = docprops.guarded_parse(d2, eos=True)
                if t2 is None:
                    problems.add("P1:pragma-doc-does-not-parse")
                    continue
                if ser(t2) != shift_tokens(toks, k):
                    problems.add("P1:tokens-differ")
            got, err2 = _scan(d2)
            if got is None:
                problems.add(f"P2:{kind}:scan-error")
                continue
            covered = set(range(k + 1, k + 1 + cover))
            want = [f for f in shifted if not (f[0] in covered and f[2].lower() in named)]
            if collections.Counter(got) != collections.Counter(want):
                g, w = collections.Counter(got), collections.Counter(want)
                kinds = ("over" if w - g else "") + ("under" if g - w else "")
                problems.add(f"P2:{kind}:{kinds}-suppressed")
            inline = [l for l in err2.split("\n") if l.strip()]
            if kind == "bad":
                if len(inline) != 1 or not re.match(rf"^t\.md:{k}:1: INLINE: ", inline[0]):
                    problems.add("P3:malformed-not-reported-once")
            else:
                if inline:
                    problems.add(f"P2:{kind}:unexpected-stderr")
                if len(want) < len(shifted) and want:
                    nt = True
            labels.append(f"{kind}:{'suppresses' if len(want) < len(shifted) else 'noop'}")
    # (P4) fix mode: pragma lines stay directly above the line they precede and do not change what fix does.
    # Two pragma lines with anchor paragraphs are appended, so they lie after every fix in the document.
    if src.strip():
        from .. import fixlib

        stem = src.rstrip("\n")
        with_p = stem + "\n\n<!-- pyml disable-next-line md013-->\nzqanchor one\n\n<!-- pyml disable-next-line md013-->\nzqanchor two\n"
        without = stem + "\n\nzqanchor one\n\nzqanchor two\n"
        fa, fb = fixlib.fix_once(with_p, []), fixlib.fix_once(without, [])
        if not fa["error"] and not fb["error"] and fa["text"] is not None:
            out_lines = fa["text"].split("\n")
            prag = [i for i, l in enumerate(out_lines) if l.startswith("<!-- pyml disable-next-line md013-->")]
            if len(prag) != 2 or any(i + 1 >= len(out_lines) or "zqanchor" not in out_lines[i + 1] for i in prag):
                problems.add("P4:fix-moves-or-loses-pragma-line")
            elif "\n".join(l for i, l in enumerate(out_lines) if i not in prag) != fb["text"]:
                problems.add("P4:fix-result-differs-with-pragma-lines")
            labels.append("fix:" + ("changed" if fa["text"] != with_p else "unchanged"))
    if problems:
        return "fail", ";".join(sorted(problems)), nt, labels
    return "pass", None, nt, labels


def main(tier, seed):
    run = Run("C11", tier, seed)
    run.regressions(replay)
    engine.run_universes(run, EVALUATOR, PLAN, tier, seed, chunk=40)
    return run.finish(RULE, assumptions=["pragma lines are kept short, tab-free and without trailing blanks so no line rule has a documented reason to fire on the pragma line itself", "insertion only before an existing line (never after the last line of a file without final newline)"])


def replay(case):
    return engine.replay_doc(EVALUATOR, case)
