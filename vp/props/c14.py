"""C14: the rule engine honours the plugin life-cycle for every file (recorder plugin)."""
import collections
import json
import os

import hypothesis
from hypothesis import given, settings, strategies as st

from .. import app, docprops, drive, plugins_src, pool, universes
from ..runner import Run

RULE = (
    "Hypothesis-generated runs: 1-3 files drawn from edge documents (empty, one line, no final newline, blank-only, pragma-only, pragma+text) and from the bounded universes "
    "(rank drawn by Hypothesis; documents that parse), mode scan|fix, recorder plugin loaded with --add-plugin in a drawn variant (callbacks overridden: all / tokens only / lines only / "
    "start+complete only; fix-capable at fix level 0, 3, 9 or not fix-capable; enabled, disabled with -d, or not enabled by default), alone or together with the default rules; "
    "oracle (vp/props/c14.py model): scan mode, per file in sorted order, the log is exactly S T* L* C with T* = the token list obtained directly from the parser (end-of-stream included, pragma token "
    "excluded) and L* = text.split('\\n') numbered from 1, restricted to the overridden callbacks; nothing for a disabled recorder; fix mode: the log is a sequence of passes S+ T* L* C, every T* a complete "
    "stream equal to the parser's for the file content (first pass: the original), every L* complete with exact text and numbers; a non-fix-capable recorder receives no T/L/C in fix mode; "
    "observer neutrality: failures printed and bytes written equal those of the same run without the recorder; non-trivial = a file with >=2 lines and (>=2 files or fix mode); distinct by (documents, variant, mode)"
)
EDGE = ["", "\n", "a", "a\n", "\n\n\n", "# t\n\ntext\n", "<!-- pyml disable-next-line md041-->\n", "<!-- pyml disable-next-line md041-->\ntext\n\n<!-- pyml disable-num-lines 2 md013-->\n",
        "#  a\n\nb   \n", "- a\n- b\n\n1. c\n", "> q\nlazy\n", "```\ncode\n", "a\tb\n\n\n\nc", "[l]: /u\n\n[l]\n", "    code\n\ntext\n", "* a\n+ b\n- c\n",
        # unusual-but-legal text: characters that str.splitlines() treats as line breaks but the parser does not; undefined references
        "a\x0cb\n", "a\x85b\nc\n", "a\u2028b\nc\n", "x\x1cy\x1dz\n", "v\x0bt\n\n# h\u2029i\n", "[l]\n", "text [l] and [l][] more\n", "[l]: /other\n"]
POOL_UNIVERSES = ["S2", "N1", "W1", "B2", "I4", "X2", "U1", "B3"]


def doc_strategy():
    edge = st.sampled_from(EDGE)
    uni = st.tuples(st.sampled_from(POOL_UNIVERSES), st.integers(min_value=0, max_value=10**9)).map(lambda t: universes.get(t[0]).doc(t[1] % universes.get(t[0]).size))
    return st.one_of(edge, uni, uni)


VARIANT = st.fixed_dictionaries({
    "callbacks": st.sampled_from(["STLC", "STLC", "T", "L", "SC", "STC", "SLC"]),
    "fix": st.booleans(),
    "level": st.sampled_from([0, 3, 9]),
    "state": st.sampled_from(["enabled", "enabled", "enabled", "disabled-cli", "default-off", "default-off-enabled-cli"]),
})


def expected_scan(src, callbacks):
    toks, psig, _ = docprops.guarded_parse(src, eos=True, count_work=False)
    if toks is None:
        return None
    ev = []
    if "S" in callbacks:
        ev.append(["S"])
    if "T" in callbacks:
        ev += [["T", str(t)] for t in toks if t.token_name != "pragma"]
    lines = src.split("\n")
    if "L" in callbacks:
        ev += [["L", i + 1, l] for i, l in enumerate(lines)]
    if "C" in callbacks:
        ev.append(["C", len(lines) + 1])
    return ev


def run_case(files, mode, variant, with_default):
    """-> (problem sig or None, nontrivial, info)"""
    sb = app.sandbox()
    sb.clear()
    plugins_src.drop_cached()
    tag = f"{variant['callbacks'].lower()}{int(variant['fix'])}{variant['level']}{int(variant['state'].startswith('default-off'))}"
    fn, cls = plugins_src.module_name("rec", tag)
    sb.write(fn, plugins_src.recorder_source(callbacks=variant["callbacks"], fix=variant["fix"], level=variant["level"], enabled=not variant["state"].startswith("default-off"), cls=cls))
    log = os.path.join(sb.tmp, "rec.log")
    os.environ["VP_REC_LOG"] = log
    names = [f"f{i}.md" for i in range(len(files))]
    ids, dflt, _, _ = app.rule_table()
    base_args = [] if with_default else ["-d", ",".join(sorted(dflt))]
    rec_args = list(base_args)
    if variant["state"] == "disabled-cli":
        rec_args = ["-d", ",".join(sorted(dflt) + ["aaa001"])] if not with_default else ["-d", "aaa001"]
    elif variant["state"] == "default-off-enabled-cli":
        rec_args = rec_args + ["-e", "aaa001"]
    active = variant["state"] in ("enabled", "default-off-enabled-cli")

    def go(args):
        for n, t in zip(names, files):
            sb.write(n, t)
        if os.path.exists(log):
            os.remove(log)
        code, out, err = app.main_guarded(args + [mode] + names, cwd=sb.work)
        after = [sb.read(n) for n in names]
        ev = []
        if os.path.exists(log):
            with open(log, encoding="utf-8") as f:
                ev = [json.loads(l) for l in f]
            os.remove(log)
        return code, out, err, after, ev

    c0, o0, e0, a0, _ = go(base_args)
    if c0 == "hang" or c0 not in (0, 1, 3) or "Error" in e0:
        return None, False, "baseline-run-error-skipped"
    c1, o1, e1, a1, ev = go(["--add-plugin", fn] + rec_args)
    problems = set()
    if (c1, o1, e1, a1) != (c0, o0, e0, a0):
        what = "bytes" if a1 != a0 else "output"
        problems.add(f"observer-not-neutral:{what}")
    cb = variant["callbacks"]
    if not active:
        if ev:
            problems.add("inactive-recorder-received-events")
    elif mode == "scan":
        want = []
        for t in files:
            e = expected_scan(t, cb)
            if e is None:
                return None, False, "no-parse-skipped"
            want += e
        got = [e[:2] if e[0] == "T" else e[:3] if e[0] == "L" else e for e in ev]
        if got != want:
            kinds_g = collections.Counter(e[0] for e in got)
            kinds_w = collections.Counter(e[0] for e in want)
            if kinds_g != kinds_w:
                diff = sorted(k for k in "STLC" if kinds_g[k] != kinds_w[k])
                problems.add("scan-log-count-differs:" + "".join(diff))
            else:
                first = next(i for i, (g, w) in enumerate(zip(got, want)) if g != w)
                problems.add("scan-log-content-differs:" + got[first][0])
    else:  # fix mode, single file by construction
        src = files[0]
        if not variant["fix"]:
            if any(e[0] != "S" for e in ev):
                problems.add("fix-nonfix-recorder-received:" + "".join(sorted({e[0] for e in ev if e[0] != "S"})))
        elif "S" in cb and "C" in cb:
            # split into passes at C
            passes, cur = [], []
            for e in ev:
                cur.append(e)
                if e[0] == "C":
                    passes.append(cur)
                    cur = []
            if cur and any(e[0] != "S" for e in cur):
                problems.add("fix-trailing-events-without-complete")
            if not passes:
                problems.add("fix-no-pass-delivered")
            toks0 = expected_scan(src, "T")
            for pi, p in enumerate(passes):
                kinds = "".join(e[0] for e in p)
                i = 0
                while i < len(kinds) and kinds[i] == "S":
                    i += 1
                if i == 0:
                    problems.add("fix-pass-without-start")
                j = i
                while j < len(kinds) and kinds[j] == "T":
                    j += 1
                k = j
                while k < len(kinds) and kinds[k] == "L":
                    k += 1
                if kinds[k:] != "C":
                    problems.add("fix-pass-shape")
                    continue
                ts = [e[:2] for e in p[i:j]]
                ls = p[j:k]
                if "T" in cb:
                    if not ts or "end-of-stream" not in ts[-1][1]:
                        problems.add("fix-pass-token-stream-incomplete")
                    if not with_default and toks0 is not None and ts != toks0:
                        problems.add("fix-pass-tokens-differ-from-parser")
                    if pi == 0 and toks0 is not None and ts != toks0:
                        problems.add("fix-first-pass-tokens-differ")
                if ls:
                    nums = [e[1] for e in ls]
                    if nums != list(range(1, len(ls) + 1)):
                        problems.add("fix-pass-line-numbers")
                    if not with_default and [e[2] for e in ls] != src.split("\n"):
                        problems.add("fix-pass-line-text")
    nt = any(t.count("\n") >= 1 for t in files) and (len(files) >= 2 or mode == "fix")
    if problems:
        return ";".join(sorted(problems)), nt, "fail"
    return None, nt, "ok"


def case_key(mode, variant, with_default, sig):
    """Known-finding key: the run shape (not the documents) + failure signature."""
    lvl = "lvl>0" if variant["level"] > 0 else "lvl0"
    return f"{mode}|fix={int(variant['fix'])}|{lvl}|L={int('L' in variant['callbacks'])}|default_rules={int(with_default)}|{sig}"


def campaign(payload):
    """Worker: one Hypothesis campaign.  payload = (seed, n_examples)"""
    seed, n = payload
    results = {"n": 0, "nt": [], "fails": [], "labels": collections.Counter(), "samples": []}

    @hypothesis.seed(seed)
    @settings(max_examples=n, deadline=None, database=None, report_multiple_bugs=False, derandomize=False,
              suppress_health_check=list(hypothesis.HealthCheck), phases=[hypothesis.Phase.generate])
    @given(files=st.lists(doc_strategy(), min_size=1, max_size=3), mode=st.sampled_from(["scan", "scan", "fix"]), variant=VARIANT, with_default=st.booleans())
    def prop(files, mode, variant, with_default):
        files = [f for f in files if "\r" not in f]
        if not files:
            return
        if mode == "fix":
            files = files[:1]
        sig, nt, info = run_case(files, mode, variant, with_default)
        results["n"] += 1
        results["labels"][f"{mode}:{info}"] += 1
        results["labels"]["variant:" + variant["callbacks"] + (":fix" if variant["fix"] else "") + ":" + variant["state"]] += 1
        if nt:
            results["nt"].append(json.dumps([files, mode, variant, with_default], sort_keys=True))
        if len(results["samples"]) < 3 and nt:
            results["samples"].append({"files": files, "mode": mode, "variant": variant, "with_default_rules": with_default})
        if sig:
            results["fails"].append((case_key(mode, variant, with_default, sig), {"kind": "lifecycle", "files": files, "mode": mode, "variant": variant, "with_default": with_default, "sig": sig}))

    prop()
    results["labels"] = dict(results["labels"])
    return results


def main(tier, seed):
    run = Run("C14", tier, seed)
    run.regressions(replay)
    shards = 8 if tier == "quick" else 16
    per = 250 if tier == "quick" else 2500
    jobs = [(seed * 1000 + s, per) for s in range(shards)]
    for res in pool.run_jobs("vp.props.c14:campaign", jobs):
        run.evaluations += res["n"]
        for k in res["nt"]:
            run.nontrivial(k)
        for k, v in res["labels"].items():
            run.labels[k] += v
        for s in res["samples"]:
            run.add_sample(s)
        for key, case in res["fails"]:
            if run.known.match_case(key):
                continue
            run.violation(key, case)
    return run.finish(RULE, assumptions=["completed_file's line number is recorded but not judged (the statement does not define it) except in scan mode where count+1 is the observed and documented-by-example value",
                                         "fix-mode intermediate file contents are not observable from outside: with other rules enabled only the first pass is compared with the parser's stream"])


def replay(case):
    sig, nt, info = run_case(case["files"], case["mode"], case["variant"], case["with_default"])
    return sig
