"""C18: exit codes follow the documented table in both schemes."""
import itertools
import json
import os
import random
import subprocess
import sys

from .. import REPO_DIR, app, plugins_src, pool
from ..runner import Run
from .c17 import dump

RULE = (
    "finite scenario table x fillers: (1) direct scenarios: version; plugins list/info (hit, bad filter); extensions list/info (hit); no sub-command; unknown option; bad --return-code-scheme; "
    "missing / unparseable --config; strict-mode configuration error; bad --add-plugin path and class; (2) every ordered file set of size 1-3 over the member kinds {clean, unfixable failure, fixable failure, "
    "plugin fault, parser fault, undecodable, missing path, ineligible file, glob without match, empty directory} x {scan, fix, scan --list-files} x --continue-on-error, plus scan-stdin over the document kinds; "
    "each under both schemes, the scheme selected by --return-code-scheme, by mode.return_code_scheme in --set / --config / .pymarkdown / pyproject.toml, or by an explicit argument against a contrary configured value (rotating); quick = seeded sample of the file sets, "
    "thorough = all; oracle (model in this file): category by the user-guide definitions with precedence path-error/no-files > any application error > fixed >= 1 file > failures found > success, "
    "mapped through the documented table; observed as SystemExit.code of PyMarkdownLint.main and, for a sample, as the real process exit status of `python -m pymarkdown`; "
    "non-trivial = the run mixes >= 2 different per-file outcomes or selects the scheme through configuration; distinct by (scenario, scheme, selection)"
)
TABLE = {"SUCCESS": (0, 0), "NO_FILES": (1, 0), "CMDLINE": (2, 2), "FIXED": (3, 0), "TRIGGERED": (1, 0), "SYSTEM": (1, 1)}
DOCS = {
    "clean": "# Title\n\nSome text.\n",
    "unfixable": "# Title\n\n## Sub\n\n## Sub\n\ntext\n",
    "fixable": "#  Title\n\nText.   \n",
    "pluginfault": "# Title\n\nVP_RAISE_HERE\n",
    "parserfault": "# T\n\n[x\n- a\n",
    "undecodable": b"# ok\n\n\xff\xfe bad \xc3\x28\n",
}
PATH_KINDS = ["missing", "ineligible", "glob-nomatch", "emptydir"]
KINDS = list(DOCS) + PATH_KINDS
SELECTIONS = ["arg", "set", "config", "default-file", "pyproject", "arg-over-config"]


def scheme_args(sb, scheme, selection):
    """-> argv prefix selecting `scheme` (None = leave default)"""
    if selection == "arg-over-config":
        # an explicit argument is the most specific layer: it wins over a configured scheme
        other = "minimal" if scheme == "default" else "default"
        return ["--set", f"mode.return_code_scheme={other}", "--return-code-scheme", scheme]
    if scheme == "default" and selection == "arg":
        return []  # the documented default needs no selection at all
    if selection == "arg":
        return ["--return-code-scheme", scheme]
    tree = {"mode": {"return_code_scheme": scheme}}
    if selection == "set":
        return ["--set", f"mode.return_code_scheme={scheme}"]
    if selection == "config":
        sb.write("rc.json", json.dumps(tree))
        return ["--config", "rc.json"]
    if selection == "default-file":
        sb.write(".pymarkdown", json.dumps(tree))
        return []
    sb.write("pyproject.toml", dump("toml", {"tool": {"pymarkdown": tree}}))
    return []


def model_fileset(kinds, mode, coe):
    """Category for a scan/fix/list run over the given member kinds (in processing = sorted order)."""
    if any(k in ("missing", "ineligible", "glob-nomatch") for k in kinds):
        return "NO_FILES"
    real = [k for k in kinds if k != "emptydir"]
    if not real:
        return "NO_FILES"
    if mode == "list":
        return "SUCCESS"
    errors = [k for k in real if k in ("pluginfault", "parserfault", "undecodable")]
    if errors:
        return "SYSTEM"
    if mode == "fix":
        return "FIXED" if any(k in ("fixable",) for k in real) else "SUCCESS"
    return "TRIGGERED" if any(k in ("unfixable", "fixable") for k in real) else "SUCCESS"


def run_fileset(payload):
    from .. import drive

    out = {"n": 0, "nt": 0, "fails": [], "samples": []}
    sb = app.sandbox()
    for kinds, mode, coe, scheme, selection, via_process in payload:
        sb.clear()
        plugins_src.drop_cached()
        fn, cls = plugins_src.module_name("text", "t1")
        sb.write("plug/" + fn, plugins_src.textfault_source(cls=cls))
        argv = scheme_args(sb, scheme, selection) + ["--add-plugin", os.path.join("plug", fn)]
        if coe:
            argv.append("--continue-on-error")
        paths = []
        for i, k in enumerate(kinds):
            name = f"f{i}_{k}.md"
            if k in DOCS:
                sb.write(name, DOCS[k])
                paths.append(name)
            elif k == "missing":
                paths.append(name)
            elif k == "ineligible":
                sb.write(f"f{i}.txt", "# a\n")
                paths.append(f"f{i}.txt")
            elif k == "glob-nomatch":
                paths.append(f"nomatch{i}*.md")
            elif k == "emptydir":
                os.makedirs(os.path.join(sb.work, f"d{i}"), exist_ok=True)
                paths.append(f"d{i}")
        cmd = {"scan": ["scan"], "fix": ["fix"], "list": ["scan", "--list-files"]}[mode]
        full = argv + cmd + paths
        if via_process:
            env = dict(os.environ, PYTHONPATH=REPO_DIR)
            p = subprocess.run([sys.executable, "-m", "pymarkdown"] + full, cwd=sb.work, env=env, capture_output=True, timeout=120, check=False)
            code = p.returncode
        else:
            code, o, e = app.main_guarded(full, cwd=sb.work)
        cat = model_fileset(kinds, mode, coe)
        want = TABLE[cat][0 if scheme == "default" else 1]
        out["n"] += 1
        if len(set(kinds)) >= 2 or selection != "arg":
            out["nt"] += 1
        if code != want:
            cause = ""
            if cat == "NO_FILES":
                cause = "|path-error" if any(k in ("missing", "ineligible", "glob-nomatch") for k in kinds) else "|empty-selection"
            key = f"fileset|{mode}|{scheme}|want={cat}:{want}|got={code}{cause}"
            out["fails"].append((key, {"kind": "fileset", "kinds": list(kinds), "mode": mode, "coe": coe, "scheme": scheme, "selection": selection, "via_process": via_process, "want": want, "got": code}))
        if len(out["samples"]) < 2:
            out["samples"].append({"argv": full, "members": list(kinds), "model_category": cat, "exit": code})
    return out


def direct_scenarios():
    """(name, setup(sb) -> argv, stdin, category)"""
    S = []

    def add(name, argv, cat, files=None, stdin=None):
        S.append((name, argv, cat, files or {}, stdin))

    add("version", ["version"], "SUCCESS")
    add("plugins-list", ["plugins", "list"], "SUCCESS")
    add("plugins-list-hit", ["plugins", "list", "md00?"], "SUCCESS")
    add("plugins-list-bad-filter", ["plugins", "list", "bad[filter"], "CMDLINE")
    add("plugins-info-hit", ["plugins", "info", "md001"], "SUCCESS")
    add("plugins-info-alias", ["plugins", "info", "line-length"], "SUCCESS")
    add("plugins-no-subcommand", ["plugins"], "CMDLINE")
    add("extensions-list", ["extensions", "list"], "SUCCESS")
    add("extensions-info-hit", ["extensions", "info", "front-matter"], "SUCCESS")
    add("extensions-no-subcommand", ["extensions"], "CMDLINE")
    add("no-subcommand", [], "CMDLINE")
    add("unknown-option", ["--nope", "scan", "a.md"], "CMDLINE", {"a.md": DOCS["clean"]})
    add("unknown-subcommand", ["frobnicate"], "CMDLINE")
    add("scan-without-path", ["scan"], "CMDLINE")
    add("bad-scheme-arg", ["--return-code-scheme", "nope", "scan", "a.md"], "CMDLINE", {"a.md": DOCS["clean"]})
    add("missing-config", ["--config", "nofile.json", "scan", "a.md"], "SYSTEM", {"a.md": DOCS["clean"]})
    add("unparseable-config", ["--config", "bad.json", "scan", "a.md"], "SYSTEM", {"a.md": DOCS["clean"], "bad.json": "{ this is : not json ]["})
    add("strict-config-error", ["--strict-config", "--set", "plugins.md013.line_length=abc", "scan", "a.md"], "SYSTEM", {"a.md": DOCS["clean"]})
    add("strict-config-error-mode", ["--set", "mode.strict-config=$!True", "--set", "plugins.md013.line_length=abc", "scan", "a.md"], "SYSTEM", {"a.md": DOCS["clean"]})
    add("bad-plugin-path", ["--add-plugin", "no_such_plugin.py", "scan", "a.md"], "SYSTEM", {"a.md": DOCS["clean"]})
    add("bad-plugin-class", ["--add-plugin", "wrong_name.py", "scan", "a.md"], "SYSTEM", {"a.md": DOCS["clean"], "wrong_name.py": "x = 1\n"})
    add("stdin-clean", ["scan-stdin"], "SUCCESS", stdin=DOCS["clean"])
    add("stdin-failures", ["scan-stdin"], "TRIGGERED", stdin=DOCS["fixable"])
    add("stdin-parserfault", ["scan-stdin"], "SYSTEM", stdin=DOCS["parserfault"])
    add("stdin-parserfault-coe", ["--continue-on-error", "scan-stdin"], "SYSTEM", stdin=DOCS["parserfault"])
    add("fix-list-files", ["fix", "--list-files", "a.md"], "SUCCESS", {"a.md": DOCS["fixable"]})
    return S


def run_direct(payload):
    out = {"n": 0, "nt": 0, "fails": [], "samples": []}
    sb = app.sandbox()
    for (name, argv, cat, files, stdin), scheme, selection in payload:
        sb.clear()
        for fn, content in files.items():
            sb.write(fn, content)
        pre = scheme_args(sb, scheme, selection)
        if cat == "CMDLINE" and selection != "arg" and scheme == "minimal":
            pass  # both schemes map to 2; selection is irrelevant but harmless
        code, o, e = app.main_guarded(pre + argv, stdin_text=stdin, cwd=sb.work)
        want = TABLE[cat][0 if scheme == "default" else 1]
        # a scheme selected by configuration cannot apply before the configuration is read: errors in
        # reading the configuration itself and argparse errors are 1/2 in both schemes anyway
        out["n"] += 1
        if selection != "arg":
            out["nt"] += 1
        if code != want:
            out["fails"].append((f"direct|{name}|{scheme}|want={cat}:{want}|got={code}", {"kind": "direct", "name": name, "scheme": scheme, "selection": selection, "want": want, "got": code, "stderr": e[:200]}))
        if len(out["samples"]) < 2:
            out["samples"].append({"argv": pre + argv, "model_category": cat, "exit": code})
    return out


def main(tier, seed):
    run = Run("C18", tier, seed)
    run.regressions(replay)
    # direct scenarios: complete in both tiers
    dj = []
    for sc in direct_scenarios():
        for scheme in ("default", "minimal"):
            for selection in SELECTIONS:
                dj.append((sc, scheme, selection))
    agg = {}
    for res in pool.run_jobs("vp.props.c18:run_direct", list(pool.chunks(dj, 12))):
        run.evaluations += res["n"]
        run.nt_extra += res["nt"]
        for s in res["samples"]:
            run.add_sample(s, cap=4)
        for k, c in res["fails"]:
            agg.setdefault(k, []).append(c)
    # file sets
    sets = [tuple(c) for n in (1, 2, 3) for c in itertools.product(KINDS, repeat=n)]
    cases = []
    idx = 0
    for ks in sets:
        for mode in ("scan", "fix", "list"):
            for coe in (False, True):
                if mode == "list" and coe:
                    continue
                for scheme in ("default", "minimal"):
                    idx += 1
                    selection = SELECTIONS[idx % len(SELECTIONS)]
                    cases.append((ks, mode, coe, scheme, selection, idx % 97 == 0))
    run.labels["fileset_cases_total"] = len(cases)
    exhaustive = tier == "thorough"
    if not exhaustive:
        rnd = random.Random(f"{seed}:c18")
        small = [c for c in cases if len(c[0]) <= 2]
        big = [c for c in cases if len(c[0]) == 3]
        cases = rnd.sample(small, min(len(small), 900)) + rnd.sample(big, 900)
    for res in pool.run_jobs("vp.props.c18:run_fileset", list(pool.chunks(cases, 25))):
        run.evaluations += res["n"]
        run.nt_extra += res["nt"]
        for s in res["samples"]:
            run.add_sample(s, cap=12)
        for k, c in res["fails"]:
            agg.setdefault(k, []).append(c)
    for key, cs in sorted(agg.items()):
        if run.known.match_case(key):
            continue
        c = cs[0]
        c["count_this_run"] = len(cs)
        run.violation(key, c)
    return run.finish(RULE, assumptions=["outcomes for `plugins list <no match>`, `plugins info <unknown>` and the extensions equivalents are not defined by the user-guide table and are not judged",
                                         "plugin fault = a loaded rule plugin raising on a marked line; parser fault = a document that crashes the parser on the pinned tree (C01 finding)"], exhaustive=exhaustive)


def replay(case):
    if case["kind"] == "direct":
        sc = [s for s in direct_scenarios() if s[0] == case["name"]]
        if not sc:
            return None
        res = run_direct([(sc[0], case["scheme"], case["selection"])])
    else:
        res = run_fileset([(tuple(case["kinds"]), case["mode"], case["coe"], case["scheme"], case["selection"], case.get("via_process", False))])
    return [k for k, _ in res["fails"]] or None
