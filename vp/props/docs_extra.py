"""Additional generated-input stages for the document-level properties:
 * C01 scaling families (work grows at most cubically; work <= envelope)
 * Hypothesis structured documents, shallow profile (all five properties)"""
import math

from .. import docprops, pool

FAMILIES = {
    "emph-open": lambda n: "*a " * n,
    "emph-nest": lambda n: "*" * n + "a" + "*" * n,
    "emph-mixed": lambda n: "*a_ " * n,
    "bracket-open": lambda n: "[" * n,
    "bracket-pairs": lambda n: "[a]" * n,
    "inline-links": lambda n: "[a](b) " * n,
    "link-nest": lambda n: "[" * n + "a" + "](b)" * n,
    "backtick-runs": lambda n: " ".join("`" * k for k in range(1, min(n, 60) + 1)) + " x" * max(0, n - 60),
    "code-spans": lambda n: "`a` " * n,
    "quote-deep": lambda n: ">" * n + " a",
    "quote-lines": lambda n: "> a\n" * n,
    "list-deep": lambda n: "".join(" " * (2 * i) + "- a\n" for i in range(min(n, 120))),
    "list-items": lambda n: "- a\n" * n,
    "olist-items": lambda n: "".join(f"{i}. a\n" for i in range(1, n + 1)),
    "link-defs": lambda n: "".join(f"[l{i}]: /u{i}\n" for i in range(n)) + "\n[l0]\n",
    "link-def-uses": lambda n: "[l]: /u\n\n" + "[l] " * n,
    "headings": lambda n: "# h\n\n" * n,
    "setext": lambda n: "h\n===\n\n" * n,
    "fence-lines": lambda n: "```\n" + "x\n" * n + "```\n",
    "indented-lines": lambda n: "    x\n" * n,
    "html-open": lambda n: "<a " * n,
    "raw-html": lambda n: "<a> " * n,
    "entities": lambda n: "&amp;" * n,
    "escapes": lambda n: "\\*" * n,
    "backslashes": lambda n: "\\" * n,
    "para-lines": lambda n: "a b\n" * n,
    "hard-breaks": lambda n: "a  \n" * n + "b",
    "blank-lines": lambda n: "\n" * n,
    "autolinks": lambda n: "<http://a.b> " * n,
    "images": lambda n: "![a](b) " * n,
    "tabs": lambda n: "\ta\tb\n" * n,
    "thematic": lambda n: "---\n\n" * n,
    "long-line": lambda n: "a" * (n * 8),
    "paragraph-then-defs": lambda n: "p\n" + "".join(f"[l{i}]: /u\n" for i in range(n)),
    # constructs recognised by regular expressions or C-level string scans: the work counter does not see time spent inside them,
    # the CPU backstop does (a super-polynomial pattern turns into `cpu-backstop` at the larger sizes)
    "email-bad-domain": lambda n: "x <a@" + "b" * n + "_> y",
    "email-bad-local": lambda n: "x <" + "a." * n + "@b> y",
    "email-long-labels": lambda n: "<a@" + ".".join("b" * 9 for _ in range(n)) + "!>",
    "uri-long": lambda n: "<a+b:" + "x" * (8 * n) + " >",
    "uri-scheme-run": lambda n: "<" + "a" * n + ">",
    "html-attrs": lambda n: "<a " + "b=c " * n + "x",
    "html-attr-quotes": lambda n: "<a " + "b='c' " * n + "'",
    "html-comment-dashes": lambda n: "<!--" + "-a" * n + "->",
    "html-cdata": lambda n: "<![CDATA[" + "]]" * n + " >",
    "html-pi": lambda n: "<?" + "?" * n + " x",
    "entity-run": lambda n: "&" + "a" * n + ";",
    "entity-numeric-run": lambda n: "&#" + "1" * n + ";",
    "lrd-long-title": lambda n: "[l]: /u \"" + "t\\\"" * n + "\n\n[l]\n",
    "lrd-open-title-lines": lambda n: "[l]: /u \"t\n" + "x\n" * n,
    "lrd-label-spaces": lambda n: "[" + "a " * n + "]: /u\n\n[" + "a  " * n + "]\n",
    "link-title-parens": lambda n: "[a](/u (" + "(" * n + ")",
    "link-dest-parens": lambda n: "[a](" + "(" * n + ")" * (n - 1) + ")",
    "link-dest-escapes": lambda n: "[a](" + "\\(" * n + ")",
    "trailing-spaces": lambda n: "a" + " " * n + "\nb" + " " * n,
    "leading-spaces": lambda n: " " * n + "a\n" + "\t" * n + "b\n",
    "setext-long-underline": lambda n: "h\n" + "=" * n + " \n\nh\n" + "-" * n + "x\n",
    "thematic-spaced": lambda n: "- " * n + "\n\n" + "* " * n + "\n\n" + "_ " * n + "_\n",
    "atx-closing-run": lambda n: "# h " + "#" * n + "\n# h " + "# " * n + "\n",
    "fence-info-long": lambda n: "```" + "a " * n + "\nx\n```\n",
    "fence-long-markers": lambda n: "`" * (n + 3) + "\nx\n" + "`" * (n + 2) + "\n" + "`" * (n + 3) + "\n",
    "underscore-words": lambda n: "a_" * n + "b " + "_a" * n,
    "star-space-alternation": lambda n: "* " * 2 + "*a " * n + "**",
    "bang-brackets": lambda n: "![" * n + "a" + "]" * n,
    "backslash-newlines": lambda n: "a\\\n" * n + "b",
    "tab-columns": lambda n: "-\t" + "a\tb" * n + "\n>\t" + "\tc" * n,
    "ordered-big-numbers": lambda n: "".join(f"{10 ** 8 + i}. a\n" for i in range(n)),
    "quote-lazy-lines": lambda n: "> a\n" + "b\n" * n,
    "nested-quote-list": lambda n: "".join("> " * (i % 5 + 1) + "- a\n" for i in range(n)),
    "html-block-lines": lambda n: "<div>\n" + "x\n" * n + "</div>\n\n<!--\n" + "y\n" * n + "-->\n",
    "strikethrough-like": lambda n: "~~a~ " * n,
    "pragma-lines": lambda n: "<!-- pyml disable-next-line md013-->\na\n" * n,
}
SIZES = [8, 16, 32, 64, 128, 256]
SIZES_THOROUGH = SIZES + [512]


def family_job(payload):
    name, sizes = payload
    out = []
    for n in sizes:
        src = FAMILIES[name](n)
        toks, sig, work = docprops.guarded_parse(src, count_work=True)
        out.append((n, len(src), sig, work))
        if sig:
            break  # larger members of a failing family only repeat the failure (and, for a hang, the backstop time)
    return name, out


def c01_families(run, tier):
    sizes = SIZES_THOROUGH if tier == "thorough" else SIZES
    jobs = [(name, sizes) for name in sorted(FAMILIES)]
    table = {}
    for name, rows in pool.run_jobs("vp.props.docs_extra:family_job", jobs):
        table[name] = rows
        run.evaluations += len(rows)
        prev = None
        for n, ln, sig, work in rows:
            run.nontrivial(f"family:{name}:{n}")
            problem = None
            if sig:
                problem = f"family:{name}|{sig}"
            elif prev and prev[1] >= 64 and prev[3] > 2000 and work > 0:
                growth = math.log2(work / prev[3]) / max(math.log2(ln / prev[2]), 1e-9) if ln > prev[2] else 0
                if growth > 3.0:
                    problem = f"family:{name}|super-cubic-growth"
            if problem:
                key = f"{problem}|n={n}"
                if not run.known.match_case(key) and not run.known.match_case(problem):
                    run.violation(problem, {"kind": "doc", "family": name, "n": n, "src": FAMILIES[name](n), "src_expr": f"FAMILIES[{name!r}]({n})", "work": work, "len": ln})
            prev = (n, n, ln, work) if not sig else prev
    run.extra["scaling_families"] = {k: [(n, ln, work) for n, ln, sig, work in v] for k, v in table.items()}
    run.add_sample({"family": "inline-links", "n": 16, "src": FAMILIES["inline-links"](16)})


def extra(run, prop, tier, seed):
    if prop == "C01":
        c01_families(run, tier)
    from . import docs_hyp

    docs_hyp.stage(run, prop, tier, seed)
