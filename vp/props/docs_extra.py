"""Additional generated-input stages for the document-level properties (Hypothesis structured
documents, C01 scaling families).  Filled in per property."""


def extra(run, prop, tier, seed):
    return
