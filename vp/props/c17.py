"""C17: rule selection and settings follow the documented precedence of configuration layers."""
import itertools
import json
import os
import re

from .. import REPO_DIR, app, pool
from ..runner import Run, h64

RULE = (
    "finite enumeration. (A) for every rule r and naming n (its id and each alias, used consistently): enabled in {unset,true,false} in each of the four layers pyproject.toml [tool.pymarkdown], default "
    "configuration file (.pymarkdown JSON / .pymarkdown.yaml / .pymarkdown.yml), --config file (JSON / YAML / TOML), --set plugins.n.enabled=$!v, crossed with the command line {none, -e n, -d n, both, -d '*'}: "
    "3^4*5 = 405 combinations per (r, n); quick = every rule with one naming chosen by seed, thorough = every (r, n); file formats rotate with the combination index; every file also carries unrelated entries and layers that do not mention the rule are sometimes present as files that mention only other things; oracle (model in this file): "
    "False if disabled on the command line (or '*'), else True if enabled on the command line, else the value of the most specific layer that sets it (--set > --config > default file > pyproject), else the documented default; "
    "observed in the ENABLED (CURRENT) column of `plugins list --all`. (B) every configuration item of every rule taken from the documentation tables (newdocs/src/plugins/rule_*.md) x {valid non-default value, wrong type, "
    "string outside the documented enumeration} x {lenient, --strict-config, mode.strict-config} x layer; oracle: `plugins info <id>` shows the value when valid, the documented default when invalid and lenient; strict + invalid => exit 1 "
    "with a configuration error on stderr and no table. non-trivial = >=2 layers set conflicting values (A) or an invalid value (B); distinct by case"
)
ROW = re.compile(r"^\s{2}(\w+\d+)\s+(\S.*?)\s+(True|False)\s+(True|False)\s+(\S+)\s+(Yes|No)\s*$")
V3 = (None, True, False)
CMDS = ("none", "e", "d", "both", "star")
DEFAULT_FILES = [(".pymarkdown", "json"), (".pymarkdown.yaml", "yaml"), (".pymarkdown.yml", "yaml")]
CONFIG_FORMATS = ["json", "yaml", "toml"]


def dump(fmt, data):
    if fmt == "json":
        return json.dumps(data)
    if fmt == "yaml":
        import yaml

        return yaml.safe_dump(data)
    # toml (flat enough for our needs)
    out = []

    def walk(prefix, d):
        scal = {k: v for k, v in d.items() if not isinstance(v, dict)}
        if scal or not d:
            if prefix:
                out.append(f"[{prefix}]")
            for k, v in scal.items():
                out.append(f"{k} = {json.dumps(v)}")
        for k, v in d.items():
            if isinstance(v, dict):
                walk(f"{prefix}.{k}" if prefix else k, v)

    walk("", data)
    return "\n".join(out) + "\n"


def model_enabled(default, layers, cmd):
    """layers = (pyproject, default_file, config, set) each None/True/False."""
    if cmd in ("d", "both", "star"):
        return False
    if cmd == "e":
        return True
    for v in reversed(layers):
        if v is not None:
            return v
    return default


def setup_layers(sb, naming, layers, idx, extra=None):
    """Write files for the four layers; returns argv prefix."""
    py, df, cf, st = layers
    argv = []
    sb.clear()

    # every configuration file also carries an unrelated entry, and a layer that does not mention the rule may
    # still be present as a file that only mentions other things: neither may influence the rule under test
    noise_rule = "md002" if naming not in ("md002", "first-heading-h1", "first-header-h1") else "md006"

    def tree(v):
        d = {"plugins": {noise_rule: {"enabled": False}}, "log": {"level": "ERROR"}}
        if v is not None:
            d["plugins"][naming] = {"enabled": v}
        return d

    h = h64(f"{naming}:{idx}")  # formats and the presence of rule-free files vary pseudo-randomly but reproducibly
    if py is not None or h % 4 == 0:
        sb.write("pyproject.toml", dump("toml", {"tool": {"pymarkdown": tree(py)}}))
    if df is not None or (h >> 2) % 4 == 0:
        name, fmt = DEFAULT_FILES[(h >> 4) % 3]
        sb.write(name, dump(fmt, tree(df)))
    if cf is not None or (h >> 6) % 2 == 0:
        fmt = CONFIG_FORMATS[(h >> 8) % 3]
        sb.write("cfg." + fmt, dump(fmt, tree(cf)))
        argv += ["--config", "cfg." + fmt]
    if st is not None:
        argv += ["--set", f"plugins.{naming}.enabled=$!{st}"]
    return argv


def run_enabled_cases(payload):
    """Worker: all 405 combinations for each (rule, naming, default) in payload."""
    from .. import drive

    sb = app.sandbox()
    out = {"n": 0, "nt": 0, "fails": [], "samples": []}
    for rule, naming, default in payload:
        idx = 0
        for layers in itertools.product(V3, repeat=4):
            for cmd in CMDS:
                idx += 1
                argv = setup_layers(sb, naming, layers, idx)
                if cmd == "e":
                    argv += ["-e", naming]
                elif cmd == "d":
                    argv += ["-d", naming]
                elif cmd == "both":
                    argv += ["-e", naming, "-d", naming]
                elif cmd == "star":
                    argv += ["-d", "*"]
                code, o, e = drive.run_main(argv + ["plugins", "list", "--all"], cwd=sb.work)
                got = None
                for line in o.split("\n"):
                    m = ROW.match(line)
                    if m and m.group(1) == rule:
                        got = m.group(4) == "True"
                want = model_enabled(default, layers, cmd)
                out["n"] += 1
                vals = {v for v in layers if v is not None}
                if len(vals) >= 2 or (vals and cmd in ("e", "d", "both")):
                    out["nt"] += 1
                if code != 0 or got is None:
                    out["fails"].append((f"enabled|run-failed:exit={code}", {"kind": "enabled", "rule": rule, "naming": naming, "layers": layers, "cmd": cmd, "stderr": e[:200]}))
                elif got != want:
                    top = max((i for i, v in enumerate(layers) if v is not None), default=-1)
                    out["fails"].append((f"enabled|cmd={cmd}|top-layer={top}|want={want}", {"kind": "enabled", "rule": rule, "naming": naming, "layers": layers, "cmd": cmd, "idx": idx}))
        if len(out["samples"]) < 1:
            out["samples"].append({"rule": rule, "naming": naming, "default": default, "combinations": 405})
    return out


# ------------------------------------------------------------------------ settings (B)
TABLE_ROW = re.compile(r"^\|\s*`([^`]+)`\s*\|\s*`?([a-z ]+?)`?\s*\|\s*(.*?)\s*\|\s*(.*?)\s*\|\s*$")


def documented_items():
    """{rule id: [(item, type, default(str), [enumeration])]} parsed from the documentation."""
    docs_dir = os.path.join(REPO_DIR, "newdocs", "src", "plugins")
    out = {}
    for fn in sorted(os.listdir(docs_dir)):
        m = re.match(r"rule_((?:md|pml)\d+)\.md$", fn)
        if not m:
            continue
        rid = m.group(1)
        items = []
        with open(os.path.join(docs_dir, fn), encoding="utf-8") as f:
            lines = f.read().split("\n")
        in_table = False
        for ln in lines:
            if ln.startswith("| Value Name"):
                in_table = True
                continue
            if in_table:
                if not ln.startswith("|"):
                    in_table = False
                    continue
                tm = TABLE_ROW.match(ln)
                if not tm or tm.group(1) == "enabled":
                    continue
                name, typ, dflt, desc = tm.group(1), tm.group(2).strip(), tm.group(3).strip().strip("`"), tm.group(4)
                enum = re.findall(r"`([A-Za-z_][A-Za-z0-9_-]*)`", desc)
                items.append((name, typ, dflt, enum))
        if items:
            out[rid] = items
    return out


def fmt_set(value):
    if isinstance(value, bool):
        return f"$!{value}"
    if isinstance(value, int):
        return f"$#{value}"
    return str(value)


def run_setting_cases(payload):
    from .. import drive

    sb = app.sandbox()
    out = {"n": 0, "nt": 0, "fails": [], "samples": []}
    for rid, item, typ, dflt, enum, case_idx in payload:
        # candidate values
        if typ == "integer":
            try:
                d = int(dflt)
            except ValueError:
                continue
            valid, shown_valid = d + 1, str(d + 1)
            invalids = [("wrong-type", "abc")]
        elif typ == "boolean":
            d = dflt.lower() == "true"
            valid, shown_valid = (not d), str(not d)
            invalids = [("wrong-type", 1)]
        elif typ == "string":
            others = [e for e in enum if e != dflt and e.lower() not in ("true", "false")]
            valid = others[0] if others else None
            shown_valid = valid
            invalids = [("wrong-type", 1)]
            if len(enum) >= 2:
                invalids.append(("not-in-enumeration", "zzz-not-a-documented-value"))
        else:
            continue
        layers = ["set", "config", "default", "pyproject"]
        stricts = ["lenient", "flag", "mode"]
        cases = []
        if valid is not None:
            for li, layer in enumerate(layers):
                cases.append((layer, "lenient" if li % 2 == 0 else "flag", "valid", valid))
        for kind, bad in invalids:
            for li, layer in enumerate(layers):
                for strict in stricts:
                    cases.append((layer, strict, kind, bad))
        for layer, strict, kind, value in cases:
            sb.clear()
            argv = []
            tree = {"plugins": {rid: {item: value}}}
            if strict == "mode" and layer != "set":
                tree["mode"] = {"strict-config": True}
            if layer == "set":
                argv += ["--set", f"plugins.{rid}.{item}={fmt_set(value)}"]
                if strict == "mode":
                    argv += ["--set", "mode.strict-config=$!True"]
            elif layer == "config":
                sb.write("cfg.json", json.dumps(tree))
                argv += ["--config", "cfg.json"]
            elif layer == "default":
                name, fmt = DEFAULT_FILES[case_idx % 3]
                sb.write(name, dump(fmt, tree))
            else:
                sb.write("pyproject.toml", dump("toml", {"tool": {"pymarkdown": tree}}))
            if strict == "flag":
                argv = ["--strict-config"] + argv
            code, o, e = drive.run_main(argv + ["plugins", "info", rid], cwd=sb.work)
            out["n"] += 1
            if kind != "valid":
                out["nt"] += 1
            shown = None
            for line in o.split("\n"):
                mm = re.match(rf"^\s+{re.escape(item)}\s+(\w+)\s+(.*?)\s*$", line)
                if mm:
                    shown = mm.group(2)
                    if typ == "string":
                        shown = shown.strip('"')  # string values are displayed quoted
            key = None
            if kind == "valid":
                if code != 0 or shown != shown_valid:
                    key = f"setting|valid-value-not-shown|{typ}|strict={strict != 'lenient'}"
            elif strict == "lenient":
                d_cmp = dflt.strip('"')
                if typ == "string" and d_cmp == "None":
                    d_cmp = ""  # documentation writes None for "no value"; the table shows an empty string
                if "](" in dflt:
                    continue  # default documented as a link to a list, not as a literal: nothing to compare
                # long values are wrapped by the table printer: compare the first display line only
                same = shown == d_cmp or (shown is not None and len(shown) >= 8 and d_cmp.startswith(shown))
                if code != 0 or not same:
                    key = f"setting|invalid-lenient-not-default|{kind}|{typ}"
            else:
                if code != 1 or shown is not None or not e.strip():
                    key = f"setting|invalid-strict-not-rejected|{kind}|{typ}|via={strict}|layer={layer}"
            if key:
                out["fails"].append((key, {"kind": "setting", "rule": rid, "item": item, "type": typ, "default": dflt, "layer": layer, "strict": strict, "value_kind": kind, "value": value, "exit": code, "shown": shown, "stderr": e[:160]}))
        if len(out["samples"]) < 1:
            out["samples"].append({"rule": rid, "item": item, "type": typ, "default": dflt, "cases": len(cases)})
    return out


def main(tier, seed):
    run = Run("C17", tier, seed)
    run.regressions(replay)
    ids, dflt, _, names = app.rule_table()
    pairs = []
    for r in ids:
        if r == "md999":
            continue
        namings = [r] + names[r]
        if tier == "quick":
            namings = [namings[(seed + h64(r)) % len(namings)]]
        for n in namings:
            pairs.append((r, n, r in dflt))
    agg = {}
    for res in pool.run_jobs("vp.props.c17:run_enabled_cases", [[p] for p in pairs]):
        run.evaluations += res["n"]
        run.nt_extra += res["nt"]
        for s in res["samples"]:
            run.add_sample(s, cap=5)
        for key, case in res["fails"]:
            agg.setdefault(key, []).append(case)
    run.labels["enabled_pairs"] = len(pairs)
    items = documented_items()
    jobs = []
    ci = 0
    for rid, its in sorted(items.items()):
        for (item, typ, d, enum) in its:
            ci += 1
            jobs.append([(rid, item, typ, d, enum, ci)])
    run.labels["documented_items"] = len(jobs)
    for res in pool.run_jobs("vp.props.c17:run_setting_cases", jobs):
        run.evaluations += res["n"]
        run.nt_extra += res["nt"]
        for s in res["samples"]:
            run.add_sample(s, cap=12)
        for key, case in res["fails"]:
            agg.setdefault(key + "|" + case["rule"] + "." + case["item"], []).append(case)
    for key, cases in sorted(agg.items()):
        if run.known.match_case(key):
            continue
        c = cases[0]
        c["count_this_run"] = len(cases)
        run.violation(key, c)
    return run.finish(RULE, assumptions=["item types, defaults and enumerations are read from the documentation tables; a valid integer value is default+1", "the rule is named consistently within one configuration (mixed namings are outside the property)"], exhaustive=(tier == "thorough"))


def replay(case):
    if case["kind"] == "enabled":
        from .. import drive

        sb = app.sandbox()
        ids, dflt, _, _ = app.rule_table()
        layers = tuple(case["layers"])
        argv = setup_layers(sb, case["naming"], layers, case.get("idx", 1))
        cmd = case["cmd"]
        n = case["naming"]
        argv += {"none": [], "e": ["-e", n], "d": ["-d", n], "both": ["-e", n, "-d", n], "star": ["-d", "*"]}[cmd]
        code, o, e = drive.run_main(argv + ["plugins", "list", "--all"], cwd=sb.work)
        got = None
        for line in o.split("\n"):
            m = ROW.match(line)
            if m and m.group(1) == case["rule"]:
                got = m.group(4) == "True"
        want = model_enabled(case["rule"] in dflt, layers, cmd)
        return None if got == want else f"got {got} want {want}"
    res = run_setting_cases([(case["rule"], case["item"], case["type"], case["default"], [], 1)])
    return [k for k, _ in res["fails"]] or None
