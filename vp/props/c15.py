"""C15: failures are contained — errors reported, never success, nothing damaged (fault enumeration)."""
import collections
import json
import os
import random
import subprocess
import sys

from .. import REPO_DIR, VERIF_DIR, app, docprops, plugins_src, pool, universes
from ..runner import Run

RULE = (
    "fault enumeration: file sets of 2-3 documents (seeded choice from a pool of fixable / unfixable / clean documents and the bounded universes) x {scan, fix} x {--continue-on-error or not} x one injected fault: "
    "(a) a loaded rule plugin raising at the k-th invocation of one callback kind, for EVERY invocation k of the fault-free run (starting_new_file, each next_token, each next_line, completed_file); "
    "(b) the parser failing: a real parser-crashing document at each file position, and TokenizedMarkdown.transform_from_provider raising at its j-th call for every j (fix mode includes re-scans); "
    "(c) an undecodable file at each position; (d) termination of a child process (os._exit) and KeyboardInterrupt at each step of the write-back of a fixed file (before it, after the target is opened/replaced, after each chunk); "
    "oracle: exit status is the system-error code (1) in both schemes, never 0/3; stderr names the failing file; with --continue-on-error every other file's output and bytes equal those of a run without the failing file; "
    "in fix mode every file is byte-equal to its original or to its fault-free fixed form; no file is created or left in the private TMPDIR/working directory when the process survives; "
    "non-trivial = the fault lands after one file was completely processed and before the last one starts; distinct by (file set, mode, flag, fault)"
)
POOL = [
    "# Title\n\nSome text.\n",
    "#  Title\n\nText.   \n\n\n\nmore\n",
    "# T\n\n### skip\n\n* a\n   * b\n\ntext\ttab\n",
    "# T\n\n## Sub\n\n## Sub\n\n1. a\n1. b\n3. c\n",
    "Title\n=====\n\n- a\n+ b\n\n```\ncode\n```\n",
    "> quote  \n> more\n\n***\n\n---\n",
]
CRASH_DOC = "[x\n- a\n"  # AssertionError 'Cannot requeue' on the pinned tree (C01 finding); stands for 'the parser fails'
UNDECODABLE = b"# ok start\n\n\xff\xfe bad \xc3\x28 bytes\n"
NAMES = ["f0.md", "f1.md", "f2.md"]


def _blocks(out):
    per = collections.defaultdict(list)
    for line in out.split("\n"):
        if not line.strip():
            continue
        for n in NAMES:
            if n in line:
                per[n].append(line)
                break
        else:
            per["?"].append(line)
    return per


class Env:
    """One prepared sandbox with the faulty plugin written once per (fix-capable?) variant."""

    def __init__(self):
        self.sb = app.sandbox()

    def run(self, files, mode, coe, fault=None, minimal=False, plugin=True, fix_capable=True, patch_parser_j=None):
        sb = self.sb
        sb.clear()
        plugins_src.drop_cached()
        fn, cls = plugins_src.module_name("fault", "f1" if fix_capable else "f0")
        for name, content in files:
            sb.write(name, content)
        argv = []
        info = os.path.join(sb.root, "fault_info.json")
        cnt = os.path.join(sb.root, "fault_count.json")
        for p in (info, cnt):
            if os.path.exists(p):
                os.remove(p)
        if plugin:
            sb.write(fn, plugins_src.faulty_source(fix=fix_capable, cls=cls))
            argv += ["--add-plugin", fn]
        os.environ["VP_FAULT"] = fault or ""
        os.environ["VP_FAULT_INFO"] = info
        os.environ["VP_FAULT_COUNT"] = cnt
        if minimal:
            argv += ["--return-code-scheme", "minimal"]
        if coe:
            argv += ["--continue-on-error"]
        before = sb.snapshot()
        restore = None
        if patch_parser_j is not None:
            from pymarkdown.general.bad_tokenization_error import BadTokenizationError
            from pymarkdown.general.tokenized_markdown import TokenizedMarkdown

            orig = TokenizedMarkdown.transform_from_provider
            state = {"n": 0}

            def patched(self_, *a, **k):
                state["n"] += 1
                if state["n"] == patch_parser_j:
                    raise BadTokenizationError("vp injected parser fault")
                return orig(self_, *a, **k)

            TokenizedMarkdown.transform_from_provider = patched
            restore = (TokenizedMarkdown, orig, state)
        try:
            code, out, err = app.main_guarded(argv + [mode] + [n for n, _ in files], cwd=sb.work)
        finally:
            if restore:
                restore[0].transform_from_provider = restore[1]
        after = sb.snapshot()
        res = {"code": code, "out": out, "err": err, "before": before, "after": after, "bytes": {n: sb.read(n) for n, _ in files}}
        res["parser_calls"] = restore[2]["n"] if restore else None
        res["info"] = json.load(open(info)) if os.path.exists(info) else None
        res["counts"] = json.load(open(cnt)) if os.path.exists(cnt) else None
        for p in (info, cnt):
            if os.path.exists(p):
                os.remove(p)
        os.environ["VP_FAULT"] = ""
        return res


def _created(res, plugin_file_ok=True):
    new = set(res["after"]) - set(res["before"])
    return sorted(k for k in new if not k.endswith(".pyc") and "__pycache__" not in k and (k.startswith("w/") or k.startswith("t/")))


def check_fault(env, files, mode, coe, minimal, fault_kind, fault_arg, baseline, fixed_bytes):
    """Run one faulted execution and judge it.  -> (problems set, failing_file or None, nontrivial)"""
    problems = set()
    names = [n for n, _ in files]
    if fault_kind == "plugin":
        res = env.run(files, mode, coe, fault=fault_arg, minimal=minimal)
        if res["info"] is None:
            return {"harness:fault-not-reached"}, None, False
        failing = res["info"]["scan_file"]
        if failing is None and mode == "scan":
            failing = names[res["info"]["k"] - 1] if res["info"]["k"] <= len(names) else None
        failing = os.path.basename(failing) if failing else None
    elif fault_kind == "parser-call":
        res = env.run(files, mode, coe, minimal=minimal, patch_parser_j=fault_arg)
        failing = None
    else:  # bad file content at a position (crash doc / undecodable)
        res = env.run(files, mode, coe, minimal=minimal)
        failing = fault_arg
    code, err, out = res["code"], res["err"], res["out"]
    tag = f"{fault_kind}"
    if code == "hang":
        return {f"{tag}|hang"}, failing, False
    if code != 1:
        problems.add(f"{tag}|exit-{code}-instead-of-system-error")
    if failing and failing not in err:
        problems.add(f"{tag}|stderr-does-not-name-failing-file")
    if not err.strip():
        problems.add(f"{tag}|nothing-on-stderr")
    # integrity of every file
    for n, content in files:
        b = res["bytes"][n]
        orig = content if isinstance(content, bytes) else content.encode("utf-8")
        ok = b == orig or (mode == "fix" and fixed_bytes.get(n) is not None and b == fixed_bytes[n])
        if not ok:
            problems.add(f"{tag}|file-neither-original-nor-fixed")
    if mode == "scan":
        for n, content in files:
            orig = content if isinstance(content, bytes) else content.encode("utf-8")
            if res["bytes"][n] != orig:
                problems.add(f"{tag}|scan-modified-file")
    left = _created(res)
    if left:
        problems.add(f"{tag}|files-left-behind:{'tmp' if any(k.startswith('t/') for k in left) else 'work'}")
    # continue-on-error: others as if the failing file were absent
    if coe and failing and fault_kind in ("plugin", "crash-doc"):
        others = [(n, c) for n, c in files if n != failing]
        ref = baseline(tuple(n for n, _ in others))
        got_blocks = _blocks(out)
        ref_blocks = _blocks(ref["out"])
        for n, _ in others:
            if got_blocks.get(n, []) != ref_blocks.get(n, []):
                problems.add(f"{tag}|continue-on-error-other-file-output-differs")
            if res["bytes"][n] != ref["bytes"][n]:
                problems.add(f"{tag}|continue-on-error-other-file-bytes-differ")
    idx = names.index(failing) if failing in names else None
    nt = idx is not None and 0 < idx < len(names) - 1 or (idx is not None and len(names) == 2 and idx == 1)
    return problems, failing, nt


def campaign(payload):
    """Worker: all faults for one file set."""
    docs, seed = payload
    env = Env()
    files = [(NAMES[i], d) for i, d in enumerate(docs)]
    names = [n for n, _ in files]
    out = {"n": 0, "nt": 0, "fails": [], "labels": collections.Counter(), "samples": []}
    cache = {}

    def baseline_factory(mode, coe, minimal):
        def baseline(subset):
            key = (mode, coe, minimal, subset)
            if key not in cache:
                sub = [(n, c) for n, c in files if n in subset]
                cache[key] = env.run(sub, mode, coe, minimal=minimal) if sub else {"out": "", "bytes": {}}
            return cache[key]

        return baseline

    for mode in ("scan", "fix"):
        clean = env.run(files, mode, False)
        if clean["code"] == "hang" or clean["code"] not in (0, 1, 3) or "Error" in clean["err"]:
            out["labels"]["fileset-skipped-faultfree-run-errors"] += 1
            continue
        counts = clean["counts"] or {}
        fixed_bytes = clean["bytes"] if mode == "fix" else {}
        for coe in (False, True):
            minimal = (hash((seed, mode, coe)) & 1) == 1
            bl = baseline_factory(mode, coe, minimal)
            faults = []
            for kind in "STLC":
                for k in range(1, counts.get(kind, 0) + 1):
                    faults.append(("plugin", f"{kind}:{k}"))
            # parser-call faults: every invocation of the fault-free run
            probe = env.run(files, mode, False, patch_parser_j=10**9)
            for j in range(1, (probe["parser_calls"] or 0) + 1):
                faults.append(("parser-call", j))
            for fk, fa in faults:
                problems, failing, nt = check_fault(env, files, mode, coe, minimal, fk, fa, bl, fixed_bytes)
                out["n"] += 1
                out["nt"] += 1 if nt else 0
                out["labels"][f"{mode}:{fk}"] += 1
                for p in problems:
                    key = f"{mode}|coe={int(coe)}|{p}"
                    out["fails"].append((key, {"kind": "fault", "docs": docs, "mode": mode, "coe": coe, "minimal": minimal, "fault_kind": fk, "fault_arg": fa}))
            # bad content at each position
            for pos in range(len(files)):
                for fk, content in (("crash-doc", CRASH_DOC), ("undecodable", UNDECODABLE)):
                    f2 = list(files)
                    f2[pos] = (names[pos], content)
                    # fault-free fixed bytes of the other files are those of the clean run
                    def bl2(subset, _f2=f2, _mode=mode, _coe=coe, _min=minimal):
                        sub = [(n, c) for n, c in _f2 if n in subset]
                        return env.run(sub, _mode, _coe, minimal=_min) if sub else {"out": "", "bytes": {}}

                    problems, failing, nt = check_fault(env, f2, mode, coe, minimal, fk, names[pos], bl2, fixed_bytes)
                    out["n"] += 1
                    out["nt"] += 1 if nt else 0
                    out["labels"][f"{mode}:{fk}"] += 1
                    for p in problems:
                        key = f"{mode}|coe={int(coe)}|{p}"
                        out["fails"].append((key, {"kind": "fault", "docs": docs, "mode": mode, "coe": coe, "minimal": minimal, "fault_kind": fk, "fault_arg": pos}))
    out["labels"] = dict(out["labels"])
    out["samples"] = [{"files": docs, "faults": "every (callback kind, k), every parser call j, crash-doc/undecodable at every position", "modes": ["scan", "fix"], "continue_on_error": [False, True]}]
    return out


# ---------------------------------------------------------------------------- crash points of write-back
CRASH_DRIVER = r'''
import os, sys, shutil, json
sys.path.insert(0, os.environ["VP_REPO"])
step_to_die = int(os.environ["VP_DIE_AT"])
how = os.environ.get("VP_DIE_HOW", "exit")
state = {"step": 0}
trace = []

def point(name):
    state["step"] += 1
    trace.append(name)
    with open(os.environ["VP_TRACE"], "w") as f:
        json.dump(trace, f)
    if state["step"] == step_to_die:
        if how == "exit":
            os._exit(77)
        raise KeyboardInterrupt()

_orig_copyfile = shutil.copyfile
def copyfile(src, dst, *a, **k):
    # chunked copy with crash points: before, after target opened (truncated), after each chunk
    point("copy:before")
    with open(src, "rb") as fs:
        with open(dst, "wb") as fd:
            point("copy:target-opened")
            while True:
                buf = fs.read(16)
                if not buf:
                    break
                fd.write(buf)
                fd.flush()
                point("copy:chunk")
    point("copy:after")
    return dst
shutil.copyfile = copyfile
_orig_replace = os.replace
def replace(src, dst, *a, **k):
    point("replace:before")
    r = _orig_replace(src, dst, *a, **k)
    point("replace:after")
    return r
os.replace = replace
_orig_rename = os.rename
def rename(src, dst, *a, **k):
    point("rename:before")
    r = _orig_rename(src, dst, *a, **k)
    point("rename:after")
    return r
os.rename = rename
from pymarkdown.main import PyMarkdownLint
try:
    PyMarkdownLint().main(sys.argv[1:])
except SystemExit as e:
    sys.exit(e.code)
'''


def crash_points(payload):
    doc, hows = payload
    sb = app.sandbox()
    sb.clear()
    drv = os.path.join(sb.root, "driver.py")
    with open(drv, "w") as f:
        f.write(CRASH_DRIVER)
    out = {"n": 0, "nt": 0, "fails": [], "labels": collections.Counter(), "samples": []}
    trace_file = os.path.join(sb.root, "trace.json")

    def run(die_at, how):
        sb.clear()
        sb.write("f0.md", doc)
        if os.path.exists(trace_file):
            os.remove(trace_file)
        env = dict(os.environ, VP_REPO=REPO_DIR, VP_DIE_AT=str(die_at), VP_DIE_HOW=how, VP_TRACE=trace_file, TMPDIR=sb.tmp, PYTHONHASHSEED="0")
        p = subprocess.run([sys.executable, drv, "fix", "f0.md"], cwd=sb.work, env=env, capture_output=True, timeout=120, check=False)
        tr = json.load(open(trace_file)) if os.path.exists(trace_file) else []
        left = sorted(os.listdir(sb.tmp))
        return p.returncode, sb.read("f0.md"), tr, left, p.stderr.decode("utf-8", "replace")

    code, fixed, trace, left, err = run(10**9, "exit")
    if code not in (0, 3) or fixed == doc.encode():
        out["labels"]["crash-doc-not-fixed-skipped"] += 1
        out["labels"] = dict(out["labels"])
        return out
    steps = len(trace)
    for how in hows:
        for s in range(1, steps + 1):
            code2, b, tr, left, err2 = run(s, how)
            out["n"] += 1
            out["nt"] += 1
            where = tr[-1] if tr else "?"
            out["labels"][f"crash:{how}:{where}"] += 1
            problems = set()
            if b != doc.encode() and b != fixed:
                problems.add(f"writeback|{how}|file-neither-original-nor-fixed@{where}")
            if how == "interrupt":
                if code2 in (0, 3):
                    problems.add(f"writeback|interrupt|exit-{code2}-reports-success")
                if left:
                    problems.add("writeback|interrupt|temp-files-left")
            for pkey in problems:
                out["fails"].append((pkey, {"kind": "crash", "doc": doc, "how": how, "step": s, "where": where}))
    out["labels"] = dict(out["labels"])
    out["samples"] = [{"doc": doc, "write_back_steps": trace}]
    return out


def file_sets(tier, seed):
    rnd = random.Random(f"{seed}:c15")
    # fixed sets first (both tiers): a fault inside an open list / quote / fence followed by a file that uses the
    # same construct nested, so that state a rule forgot to reset in the failing file shows in the next one
    LISTY = "# T\n\n- first item\n- second item\n  - nested\n    + deep\n\n1. one\n   1. inner\n"
    QUOTY = "# T\n\n> quote\n> > inner\n> - list in quote\n\n```text\ncode\n```\n"
    sets = [([LISTY, LISTY], seed * 1000 + 900), ([POOL[4], POOL[2], LISTY], seed * 1000 + 901), ([QUOTY, LISTY, QUOTY], seed * 1000 + 902)]
    n = 3 if tier == "quick" else 120
    for i in range(n):
        k = 2 + (i % 2)
        docs = []
        for j in range(k):
            if rnd.random() < 0.6:
                docs.append(POOL[rnd.randrange(len(POOL))])
            else:
                un = rnd.choice(["S2", "N1", "W1"])
                u = universes.get(un)
                for _ in range(20):
                    d = u.doc(rnd.randrange(u.size))
                    if "\r" in d or len(d) > 300 or not d.strip():
                        continue
                    if docprops.guarded_parse(d, count_work=True)[0] is not None:
                        docs.append(d)
                        break
                else:
                    docs.append(POOL[0])
        sets.append((docs, seed * 1000 + i))
    return sets


def main(tier, seed):
    run = Run("C15", tier, seed)
    run.regressions(replay)
    jobs = file_sets(tier, seed)
    agg = collections.defaultdict(list)
    for res in pool.run_jobs("vp.props.c15:campaign", jobs):
        run.evaluations += res["n"]
        run.nt_extra += res["nt"]
        for k, v in res["labels"].items():
            run.labels[k] += v
        for s in res["samples"]:
            run.add_sample(s, cap=6)
        for key, case in res["fails"]:
            agg[key].append(case)
    crash_docs = [POOL[1], POOL[2]] if tier == "quick" else POOL[1:] + ["#  a\n" * 40]
    for res in pool.run_jobs("vp.props.c15:crash_points", [(d, ["exit", "interrupt"]) for d in crash_docs]):
        run.evaluations += res["n"]
        run.nt_extra += res["nt"]
        for k, v in res["labels"].items():
            run.labels[k] += v
        for s in res["samples"]:
            run.add_sample(s, cap=10)
        for key, case in res["fails"]:
            agg[key].append(case)
    for key, cases in sorted(agg.items()):
        if run.known.match_case(key):
            run.known.seen[run.known.match_case(key)] += len(cases) - 2
            continue
        case = min(cases, key=lambda c: len(json.dumps(c)))
        case["count_this_run"] = len(cases)
        run.violation(key, case)
    return run.finish(RULE, level="fault_enumeration", assumptions=[
        "crash points are those of the Python-level write sequence (shutil.copyfile / os.replace patched inside a child process the harness owns); power loss below write/rename is out of reach",
        "for os._exit crash points only the integrity clause is asserted (no implementation can clean up after an abrupt kill)",
        "a starting_new_file fault in fix mode cannot be attributed to a file from outside; only exit status and integrity are judged there"])


def replay(case):
    env = Env()
    if case.get("kind") == "crash":
        res = crash_points((case["doc"], [case["how"]]))
        return [k for k, _ in res["fails"]] or None
    files = [(NAMES[i], d) for i, d in enumerate(case["docs"])]
    mode, coe, minimal = case["mode"], case["coe"], case.get("minimal", False)
    clean = env.run(files, mode, False)
    fixed_bytes = clean["bytes"] if mode == "fix" else {}
    fk, fa = case["fault_kind"], case["fault_arg"]
    names = [n for n, _ in files]

    def bl(subset, _files=files):
        sub = [(n, c) for n, c in _files if n in subset]
        return env.run(sub, mode, coe, minimal=minimal) if sub else {"out": "", "bytes": {}}

    if fk in ("crash-doc", "undecodable"):
        f2 = list(files)
        f2[fa] = (names[fa], CRASH_DOC if fk == "crash-doc" else UNDECODABLE)

        def bl2(subset):
            sub = [(n, c) for n, c in f2 if n in subset]
            return env.run(sub, mode, coe, minimal=minimal) if sub else {"out": "", "bytes": {}}

        problems, _, _ = check_fault(env, f2, mode, coe, minimal, fk, names[fa], bl2, fixed_bytes)
    else:
        problems, _, _ = check_fault(env, files, mode, coe, minimal, fk, fa, bl, fixed_bytes)
    return sorted(problems) or None
