"""Shared fix-mode driver for C08 C09 C10: configurations per document and one fix profile."""
import re

from . import app, docprops
from .props.c07 import CRASH_RE, alone_args
from .runner import h64

ERR_RE = re.compile(r"BadPluginFixError|BadPluginError|BadTokenizationError|Traceback|Unexpected Error|critical failure")


def default_fix_rules():
    ids, dflt, fix, _ = app.rule_table()
    return sorted(r for r in fix if r in dflt)


def rules_args(rules):
    """Arguments enabling exactly `rules` (a subset of the default-enabled rules)."""
    ids, dflt, _, _ = app.rule_table()
    others = [i for i in ids if i in dflt and i not in rules]
    return ["-d", ",".join(others)] if others else []


def configs_for(src, base_failures):
    """default + up to 2 single fix-capable rules + 1 pair, chosen by what fires on the
    document (so the fix actually happens) and by source hash otherwise."""
    fr = default_fix_rules()
    firing = sorted({f[2].lower() for f in base_failures if f[2].lower() in fr})
    h = h64(src)
    singles = []
    for j, pool_ in enumerate((firing, firing, fr)):
        if pool_:
            r = pool_[(h >> (6 * j)) % len(pool_)]
            if r not in singles:
                singles.append(r)
    singles = singles[:2]
    out = [("default", [], None)]
    for r in singles:
        out.append((f"single:{r}", rules_args([r]), [r]))
    if len(firing) >= 2:
        a = firing[h % len(firing)]
        b = firing[(h // 7 + 1) % len(firing)]
        if a != b:
            pair = sorted([a, b])
            out.append((f"pair:{pair[0]}+{pair[1]}", rules_args(pair), pair))
    elif firing:
        b = fr[(h >> 9) % len(fr)]
        if b != firing[0]:
            pair = sorted([firing[0], b])
            out.append((f"pair:{pair[0]}+{pair[1]}", rules_args(pair), pair))
    return out


def scan_ok(src, args):
    code, fails, err, out = app.scan_text(src, pre_args=args)
    if code == "hang" or CRASH_RE.search(err) or ERR_RE.search(err):
        return None
    return fails


def fix_once(src, args):
    """-> dict(code, text, out, err, error(bool))"""
    code, new, out, err = app.fix_text(src, pre_args=args)
    error = code == "hang" or bool(ERR_RE.search(err)) or bool(ERR_RE.search(out)) or code not in (0, 3)
    return {"code": code, "text": new, "out": out, "err": err, "error": error}


def parses(src):
    toks, psig, _ = docprops.guarded_parse(src)
    return toks is not None


# ---------------------------------------------------------------------------------------------- configured fixes
def _fmt(v):
    if isinstance(v, bool):
        return f"$!{v}"
    if isinstance(v, int):
        return f"$#{v}"
    return str(v)


# (rule, documented configuration values, gate: the rule's construct may occur in the document)
CFG_VARIANTS = [
    ("md004", {"style": "asterisk"}, lambda s: re.search(r"^[ >]*[-+] ", s, re.M)),
    ("md004", {"style": "plus"}, lambda s: re.search(r"^[ >]*[-*] ", s, re.M)),
    ("md004", {"style": "sublist"}, lambda s: re.search(r"^ +[-+*] ", s, re.M)),
    ("md007", {"indent": 4}, lambda s: re.search(r"^ +[-+*] ", s, re.M)),
    ("md007", {"start_indented": True}, lambda s: re.search(r"^[-+*] ", s, re.M)),
    # (md009 strict / br_spaces are left out: whether removing the spaces of a hard line break the user configured away
    #  counts as a style change is not something the property or the rule documentation decides)
    ("md010", {"code_blocks": False}, lambda s: "\t" in s),
    ("md012", {"maximum": 2}, lambda s: re.search(r"\n[ >]*\n[ >]*\n", s)),
    ("md012", {"maximum": 3}, lambda s: re.search(r"\n[ >]*\n[ >]*\n[ >]*\n", s)),
    ("md029", {"style": "one"}, lambda s: re.search(r"^[ >]*\d+[.)] ", s, re.M)),
    ("md029", {"style": "ordered"}, lambda s: re.search(r"^[ >]*\d+[.)] ", s, re.M)),
    ("md029", {"style": "zero"}, lambda s: re.search(r"^[ >]*\d+[.)] ", s, re.M)),
    ("md030", {"ul_single": 2, "ol_single": 2}, lambda s: re.search(r"^[ >]*(?:[-+*]|\d+[.)]) ", s, re.M)),
    ("md030", {"ul_multi": 3, "ol_multi": 2}, lambda s: re.search(r"^[ >]*(?:[-+*]|\d+[.)]) ", s, re.M)),
    ("md031", {"list_items": False}, lambda s: "```" in s or "~~~" in s),
    ("md035", {"style": "***"}, lambda s: re.search(r"^[ >]*([-_*])( ?\1){2,} *$", s, re.M)),
    ("md035", {"style": "- - -"}, lambda s: re.search(r"^[ >]*([-_*])( ?\1){2,} *$", s, re.M)),
    ("md044", {"names": "ParaGraph,ThIs"}, lambda s: re.search(r"(?i)paragraph|this", s)),
    ("md044", {"names": "ParaGraph,ThIs", "code_blocks": False}, lambda s: re.search(r"(?i)paragraph|this", s)),
    ("md046", {"style": "fenced"}, lambda s: re.search(r"^[ >]* {4}\S", s, re.M)),
    ("md046", {"style": "indented"}, lambda s: "```" in s or "~~~" in s),
    ("md048", {"style": "tilde"}, lambda s: "```" in s),
    ("md048", {"style": "backtick"}, lambda s: "~~~" in s),
]


def cfg_configs_for(src):
    """up to 3 configured single-rule fix variants whose construct occurs in the document, chosen by source hash"""
    cands = [(r, c) for r, c, gate in CFG_VARIANTS if gate(src)]
    if not cands:
        return []
    h = h64(src)
    picked = []
    for j in range(3):
        r, c = cands[(h >> (7 * j)) % len(cands)]
        name = "cfg:" + r + ":" + ",".join(f"{k}={v}" for k, v in sorted(c.items()))
        if all(name != p[0] for p in picked):
            args = rules_args([r])
            for k, v in c.items():
                args = args + ["--set", f"plugins.{r}.{k}={_fmt(v)}"]
            picked.append((name, args, [r]))
    return picked
