"""Shared fix-mode driver for C08 C09 C10: configurations per document and one fix profile."""
import re

from . import app, docprops
from .props.c07 import CRASH_RE, alone_args
from .runner import h64

ERR_RE = re.compile(r"BadPluginFixError|BadPluginError|BadTokenizationError|Traceback|Unexpected Error|critical failure")


def default_fix_rules():
    ids, dflt, fix, _ = app.rule_table()
    return sorted(r for r in fix if r in dflt)


def rules_args(rules):
    """Arguments enabling exactly `rules` (a subset of the default-enabled rules)."""
    ids, dflt, _, _ = app.rule_table()
    others = [i for i in ids if i in dflt and i not in rules]
    return ["-d", ",".join(others)] if others else []


def configs_for(src, base_failures):
    """default + up to 2 single fix-capable rules + 1 pair, chosen by what fires on the
    document (so the fix actually happens) and by source hash otherwise."""
    fr = default_fix_rules()
    firing = sorted({f[2].lower() for f in base_failures if f[2].lower() in fr})
    h = h64(src)
    singles = []
    for j, pool_ in enumerate((firing, firing, fr)):
        if pool_:
            r = pool_[(h >> (6 * j)) % len(pool_)]
            if r not in singles:
                singles.append(r)
    singles = singles[:2]
    out = [("default", [], None)]
    for r in singles:
        out.append((f"single:{r}", rules_args([r]), [r]))
    if len(firing) >= 2:
        a = firing[h % len(firing)]
        b = firing[(h // 7 + 1) % len(firing)]
        if a != b:
            pair = sorted([a, b])
            out.append((f"pair:{pair[0]}+{pair[1]}", rules_args(pair), pair))
    elif firing:
        b = fr[(h >> 9) % len(fr)]
        if b != firing[0]:
            pair = sorted([firing[0], b])
            out.append((f"pair:{pair[0]}+{pair[1]}", rules_args(pair), pair))
    return out


def scan_ok(src, args):
    code, fails, err, out = app.scan_text(src, pre_args=args)
    if code == "hang" or CRASH_RE.search(err) or ERR_RE.search(err):
        return None
    return fails


def fix_once(src, args):
    """-> dict(code, text, out, err, error(bool))"""
    code, new, out, err = app.fix_text(src, pre_args=args)
    error = code == "hang" or bool(ERR_RE.search(err)) or bool(ERR_RE.search(out)) or code not in (0, 3)
    return {"code": code, "text": new, "out": out, "err": err, "error": error}


def parses(src):
    toks, psig, _ = docprops.guarded_parse(src)
    return toks is not None
