"""Verification framework for jackdewinter/pymarkdown (property-based testing / fuzzing)."""
import os
import sys

VERIF_DIR = os.path.dirname(os.path.dirname(os.path.abspath(__file__)))
REPO_DIR = os.path.abspath(os.environ.get("VERIF_REPO", "/repo"))


def setup_repo():
    """Make `import pymarkdown` resolve to $VERIF_REPO's working tree."""
    if not sys.path or sys.path[0] != REPO_DIR:
        if REPO_DIR in sys.path:
            sys.path.remove(REPO_DIR)
        sys.path.insert(0, REPO_DIR)
    vend = os.path.join(VERIF_DIR, "vendor")
    if vend not in sys.path:
        sys.path.insert(1, vend)
    os.environ.setdefault("PYMARKDOWN_VERIF", "1")
