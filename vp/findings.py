"""Known findings: loading, matching, reporting.  Never written at run time."""
import gzip
import hashlib
import json
import os

from . import VERIF_DIR

KF_PATH = os.path.join(VERIF_DIR, "known_findings.json")
KF_DATA = os.path.join(VERIF_DIR, "known_findings_data")


def sig_id(prop, sig):
    return f"KF-{prop}-{hashlib.sha1(sig.encode()).hexdigest()[:6]}"


def delta_encode(ranks):
    out, prev = [], 0
    for r in sorted(ranks):
        out.append(r - prev)
        prev = r
    return out


def delta_decode(deltas):
    out, cur = [], 0
    for d in deltas:
        cur += d
        out.append(cur)
    return out


class Known:
    """Known findings of one property."""

    def __init__(self, prop):
        self.prop = prop
        self.entries = []
        self.fixed = []
        if os.path.exists(KF_PATH):
            with open(KF_PATH, encoding="utf-8") as f:
                data = json.load(f)
            for e in data.get("findings", []):
                if e.get("property") != prop:
                    continue
                if e.get("status") == "open":
                    self.entries.append(e)
                else:
                    self.fixed.append(e)
        self._ranks = {}  # universe -> {rank: sig}
        self._loaded = False
        self.seen = {}  # finding id -> count
        self.by_sig = {}
        for e in self.entries:
            for m in e.get("match", []):
                if m.get("kind") == "ranks":
                    self.by_sig[m["sig"]] = e["id"]
        self.call_sites = {}
        self.shapes = []
        for e in self.entries:
            for m in e.get("match", []):
                if m.get("kind") == "call_site":
                    self.call_sites[m["sig"]] = e["id"]
                elif m.get("kind") == "case":
                    self.shapes.append((m, e["id"]))

    def _load(self):
        if self._loaded:
            return
        self._loaded = True
        path = os.path.join(KF_DATA, f"{self.prop}.json.gz")
        if not os.path.exists(path):
            return
        with gzip.open(path, "rt", encoding="utf-8") as f:
            data = json.load(f)
        for uname, ud in data.get("universes", {}).items():
            m = {}
            for sig, val in ud["sigs"].items():
                if sig not in self.by_sig:
                    continue  # only sigs that are listed as open findings suppress anything
                if isinstance(val, dict):
                    for r, d in zip(delta_decode(val["r"]), val["d"]):
                        m[r] = sig + "#" + d if d else sig
                else:
                    for r in delta_decode(val):
                        m[r] = sig
            self._ranks[uname] = m
        self.checksums = {u: d.get("checksum") for u, d in data.get("universes", {}).items()}

    def match_rank(self, universe, rank, sig):
        """Finding id if (universe, rank) is listed as failing with this signature."""
        self._load()
        m = self._ranks.get(universe)
        if m is None:
            return None
        if m.get(rank) == sig:
            fid = self.by_sig[sig.split("#")[0]]
            self.seen[fid] = self.seen.get(fid, 0) + 1
            return fid
        return None

    def match_call_site(self, sig):
        fid = self.call_sites.get(sig)
        if fid:
            self.seen[fid] = self.seen.get(fid, 0) + 1
        return fid

    def match_generated(self, sig, src):
        """Matchers for documents that are not ranks of a universe (Hypothesis stage).  Deliberately few and
        narrow: exception call sites, exact coarse signatures of systematic findings, class-suffix sets, and
        shape predicates (regular expression over the source, optionally tied to a signature prefix)."""
        import re

        coarse = str(sig).split("#")[0]
        for e in self.entries:
            for m in e.get("match", []):
                k = m.get("kind")
                ok = False
                if k == "call_site" and m.get("sig") == coarse:
                    ok = True
                elif k == "sig" and m.get("sig") == coarse:
                    ok = True
                elif k == "sig_classes_suffix" and coarse and all(c.endswith(m["suffix"]) for c in coarse.split(",")):
                    ok = True
                elif k == "shape" and re.search(m["regex"], src) and coarse.startswith(m.get("sig_prefix", "")):
                    ok = True
                if ok:
                    self.seen[e["id"]] = self.seen.get(e["id"], 0) + 1
                    return e["id"]
        return None

    def match_case(self, key):
        """Exact listed case (histories / configurations / argument shapes): key is a string."""
        for m, fid in self.shapes:
            if m.get("key") == key or (m.get("endswith") and key.endswith(m["endswith"])) or (m.get("startswith") and key.startswith(m["startswith"])):
                self.seen[fid] = self.seen.get(fid, 0) + 1
                return fid
        return None

    def undecided_seen(self):
        ids = {e["id"] for e in self.entries if e.get("disposition") == "undecided"}
        return sum(v for k, v in self.seen.items() if k in ids)

    def report_lines(self):
        lines = []
        for e in self.entries:
            if e.get("disposition") == "undecided":
                # a disagreement with the independent oracle that could not be adjudicated from the
                # specification text: a rank-exact DOMAIN EXCLUSION, not claimed as a finding
                continue
            n = self.seen.get(e["id"], 0)
            lines.append(f"KNOWN-FINDING: property={self.prop} {e['id']} {e['title']} (seen {n} times this run)")
        return lines
