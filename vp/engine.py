"""Generic universe engine: evaluate one property's per-document evaluator over rank sets.

evaluator(src, opts, rank) -> (status, sig, nontrivial, labels)
   status in "pass" | "fail" | "skip";  sig: position-free failure signature (or skip reason)
Failures are matched against the committed exact rank sets (findings.Known); unmatched ones are
minimised (ddmin) and become violations."""
import importlib
import os
import random

from . import pool, universes
from .ddmin import minimize_doc


def _resolve(path):
    mod, fn = path.split(":")
    return getattr(importlib.import_module(mod), fn)


class SubUniverse(universes.Universe):
    """Every stride-th document of a base universe (a fixed sub-lattice, for expensive oracles)."""

    def __init__(self, base, stride):
        self.base = universes.get(base)
        self.stride = stride
        self.name = f"{base}/{stride}"
        self.size = (self.base.size + stride - 1) // stride

    def doc(self, rank):
        return self.base.doc(rank * self.stride)


_SUBS = {}


class TaggedUniverse(universes.Universe):
    """`<universe>#<tag>`: the documents of <universe>, evaluated by another evaluator of the same property (its own
    known-finding rank sets are keyed by the full name)."""

    def __init__(self, name):
        self.name = name
        self.base = get_universe(name.split("#")[0])
        self.size = self.base.size

    def doc(self, rank):
        return self.base.doc(rank)


def get_universe(name):
    if "#" in name:
        if name not in _SUBS:
            _SUBS[name] = TaggedUniverse(name)
        return _SUBS[name]
    if "/" in name:
        if name not in _SUBS:
            b, s = name.split("/")
            _SUBS[name] = SubUniverse(b, int(s))
        return _SUBS[name]
    return universes.get(name)


def eval_ranks(payload):
    evaluator_path, uname, ranks, opts = payload
    ev = _resolve(evaluator_path)
    u = get_universe(uname)
    out = {"universe": uname, "n": len(ranks), "fail": [], "pass": 0, "skip": 0, "skips": {}, "nt": 0, "samples": [], "labels": {}}
    for r in ranks:
        src = u.doc(r)
        st, sig, nt, labels = ev(src, opts, r)
        if st == "fail":
            out["fail"].append((r, sig))
        elif st == "skip":
            out["skip"] += 1
            out["skips"][sig] = out["skips"].get(sig, 0) + 1
        else:
            out["pass"] += 1
        if nt and st != "skip":
            out["nt"] += 1
            if len(out["samples"]) < 2:
                out["samples"].append({"universe": uname, "rank": r, "src": src})
        for l in labels or ():
            out["labels"][l] = out["labels"].get(l, 0) + 1
    return out


_DISTILLED = None


def distilled(uname):
    """Coverage-distilled stratum for the scan / fix pipeline (tools/distill.py scan): ranks of the plan universes that
    each added a line or branch direction of pymarkdown/ (rules, plugin manager, fix machinery) not reached before."""
    global _DISTILLED
    if _DISTILLED is None:
        import json

        from . import VERIF_DIR

        p = os.path.join(VERIF_DIR, "corpus", "distilled_scan.json")
        _DISTILLED = json.load(open(p)) if os.path.exists(p) else {}
    return _DISTILLED.get(uname, [])


def plan_ranks(uname, tier, seed, quick_n, first=0):
    u = get_universe(uname)
    if tier == "thorough" or quick_n >= u.size:
        return range(u.size), True
    rnd = random.Random(f"{seed}:{uname}")
    ranks = set(range(min(first, u.size)))
    ranks.update(r for r in distilled(uname) if r < u.size)
    ranks.update(rnd.sample(range(u.size), min(quick_n, u.size)))
    return sorted(ranks), len(ranks) == u.size


def run_universes(run, evaluator_path, plan, tier, seed, opts=None, chunk=200, minimize=True, first=None):
    """plan: {universe name: quick sample size}.  Returns True if every universe was enumerated
    completely."""
    ev = _resolve(evaluator_path)
    all_exh = True
    unmatched = {}
    first = first or {}
    skip = set(filter(None, os.environ.get("VERIF_SKIP_UNIVERSES", "").split(",")))
    for uname, qn in plan.items():
        if uname.split("/")[0].split("#")[0] in skip or ("#" in uname and "#" + uname.split("#")[1] in skip):
            continue
        ranks, exh = plan_ranks(uname, tier, seed, qn, first.get(uname, 0))
        all_exh &= exh
        # small samples are cut into at least ~3 jobs per process so that every core is busy in the quick tier
        eff_chunk = max(1, min(chunk, -(-len(ranks) // (3 * pool.NPROC))))
        jobs = [(evaluator_path, uname, c, opts) for c in pool.chunks(ranks, eff_chunk)]
        st = {"evaluated": 0, "pass": 0, "fail_known": 0, "fail_new": 0, "skipped": 0, "nontrivial": 0, "exhaustive": exh, "size": get_universe(uname).size}
        for res in pool.run_jobs("vp.engine:eval_ranks", jobs):
            st["evaluated"] += res["n"]
            st["pass"] += res["pass"]
            st["skipped"] += res["skip"]
            st["nontrivial"] += res["nt"]
            for k, v in res["skips"].items():
                (run.excluded if str(k).startswith("excluded:") else run.skipped)[k] += v
            for k, v in res["labels"].items():
                run.labels[k] += v
            for s in res["samples"]:
                if len(run.samples) < 14 and (len(run.samples) < 3 or s["universe"] not in {x.get("universe") for x in run.samples if isinstance(x, dict)}):
                    run.add_sample(s)
            for rank, sig in res["fail"]:
                if run.known.match_rank(uname, rank, sig):
                    st["fail_known"] += 1
                else:
                    st["fail_new"] += 1
                    unmatched.setdefault(str(sig).split("#")[0], []).append((uname, rank))
        run.evaluations += st["evaluated"]
        run.nt_extra += st["nontrivial"]
        run.per_universe[uname] = st
    for sig, lst in sorted(unmatched.items(), key=lambda kv: (len(kv[0]), kv[0]))[:12]:
        lst.sort(key=lambda ur: len(get_universe(ur[0]).doc(ur[1])))
        uname, rank = lst[0]
        src = get_universe(uname).doc(rank)
        small = src
        if minimize:

            def fails(d, _sig=sig):
                s = ev(d, opts, None)
                return s[0] == "fail" and str(s[1]).split("#")[0] == _sig

            try:
                small = minimize_doc(src, fails, budget=200)
            except Exception:
                small = src
        run.violation(sig, {"kind": "doc", "universe": uname, "rank": rank, "src": src, "min_src": small, "opts": opts, "count_this_run": len(lst), "more": [list(x) for x in lst[1:6]]})
    return all_exh


def replay_doc(evaluator_path, case):
    ev = _resolve(evaluator_path)
    bad = []
    for s in dict.fromkeys([case.get("src"), case.get("min_src")]):
        if s is None:
            continue
        st, sig, _, _ = ev(s, case.get("opts"), None)
        if st == "fail":
            bad.append((s, sig))
    return bad
