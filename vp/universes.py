"""Bounded-exhaustive document universes: finite, totally ordered, doc(rank) in O(1).

The vocabularies are FROZEN once known_findings_data/ has been built from them
(tools/triage.py stores a checksum per universe; vp.setup verifies it)."""
import hashlib
import json
import os

from . import VERIF_DIR

PRAGMA = "<!-- pyml disable-next-line no-multiple-blanks-->"

# ---------------------------------------------------------------------------- vocabularies
B2_PREFIXES = [
    "", " ", "  ", "   ", "    ", "\t", "> ", ">", ">  ", "> > ", "- ", "-   ", "* ", "+ ",
    "1. ", "1) ", "10. ", "  - ", "    - ", "> - ", "- > ", "1. - ",
]
B2_BODIES = [
    "", "a", "a  ", "a\\", "# h", "#h", "## h ##", "---", "***", "===", "```", "~~~py",
    "    c", "<div>", "</div>", "<!-- c -->", "[l]: /u", "[l]: /u 't'", "[l", "[l]",
    '[a](/u "t")', "![i](/u)", "*e*", "**s**", "`c`", "<http://a.b>", "<b>", "&amp;",
    "- b", "> b", "1. b", "a\tb", PRAGMA,
]
B3_PREFIXES = ["", "  ", "    ", "> ", ">", "- ", "1. ", "  - ", "> - ", "- > ", "   > "]
B3_BODIES = ["", "a", "# h", "---", "```", "    c", "<div>", "[l]: /u", "[l", "*e* [l]", "- b"]
B4_PREFIXES = ["", "  ", "> ", "- ", "  - ", "> - "]
B4_BODIES = ["", "a", "```", "---", "[l]: /u", "1. b"]

I4_FRAGS = [
    "*", "**", "_", "`", "``", "[", "]", "(", ")", "](/u)", "[l]", "!", "<", ">", "<b>",
    "<http://a.b>", "\\", "\\*", "&amp;", "&#35;", "a", " ", "  \n", "\\\n", "\n", '"',
]
I4_HOSTS = [("", "", "\n"), ("# ", "", "\n"), ("", "", "\n===\n"), ("> - ", "", "\n"), ("", "", "\n\n[l]: /u\n")]
I6_FRAGS = ["*", "_", "**", "a", " ", "[", "]", "](/u)"]

X2_LINES = [
    "", "a", "~~a~~", "~a~", "a ~~b c~~ d", "- [ ] t", "- [x] t", "* [X] t", "- [ ]", "1. [ ] t",
    "www.a.b", "http://a.b/c", "see https://a.b/c?d=e.", "a@b.c", "mailto:a@b.c", "xmpp:a@b.c/d",
    "<script>", "<title>t</title>", "a <iframe> b", "<xmp>", "<div>", "<b>x</b>",
    PRAGMA, "<!-- pyml disable-num-lines 2 md013-->", "<!--- pyml disable-next-line md041-->",
    "---", "title: x", "k: [1, 2]", "...", "# h", "> q", "    c", "```", "[ ] t", "ftp://a.b",
]


# heading-centred universe (rule state across several headings: levels, duplicates, punctuation, spacing, length)
H4_LINES = ["# a", "## b", "### c", "#### d", "###### f", "# a.", "#  a", " # a", "T\n===", "T\n---", "text", "", "## b ##",
            "# a heading of some length", "> # q"]


def _sha(obj):
    return hashlib.sha256(json.dumps(obj, ensure_ascii=True, sort_keys=True).encode()).hexdigest()[:16]


class Universe:
    name = "?"
    size = 0

    def doc(self, rank):  # pragma: no cover
        raise NotImplementedError

    def checksum(self):
        """Stable fingerprint of the universe definition (spot docs + size)."""
        n = self.size
        pts = sorted({0, 1, n // 7, n // 3, n // 2, (2 * n) // 3, n - 2, n - 1} & set(range(n)))
        return _sha([self.name, n, [self.doc(r) for r in pts]])


class LinesUniverse(Universe):
    """All documents of 1..n_lines lines, line = prefix+body over the vocabulary; the shorter
    lengths come first; every document with and without the final newline (newline_variants)."""

    def __init__(self, name, prefixes, bodies, n_lines, newline_variants=True, min_lines=1):
        self.name = name
        self.lines = [p + b for p in prefixes for b in bodies]
        # remove duplicates while keeping order
        seen = set()
        self.lines = [x for x in self.lines if not (x in seen or seen.add(x))]
        self.k = len(self.lines)
        self.nv = 2 if newline_variants else 1
        self.blocks = []  # (start_rank, n_lines)
        start = 0
        for n in range(min_lines, n_lines + 1):
            self.blocks.append((start, n))
            start += (self.k**n) * self.nv
        self.size = start

    def doc(self, rank):
        for start, n in reversed(self.blocks):
            if rank >= start:
                r = rank - start
                break
        nl = r % self.nv
        r //= self.nv
        out = []
        for _ in range(n):
            out.append(self.lines[r % self.k])
            r //= self.k
        s = "\n".join(reversed(out))
        return s + "\n" if nl == 0 else s


class InlineUniverse(Universe):
    def __init__(self, name, frags, max_frags, hosts):
        self.name = name
        self.frags = frags
        self.k = len(frags)
        self.hosts = hosts
        self.blocks = []
        start = 0
        for n in range(1, max_frags + 1):
            self.blocks.append((start, n))
            start += (self.k**n) * len(hosts)
        self.size = start

    def doc(self, rank):
        for start, n in reversed(self.blocks):
            if rank >= start:
                r = rank - start
                break
        h = self.hosts[r % len(self.hosts)]
        r //= len(self.hosts)
        out = []
        for _ in range(n):
            out.append(self.frags[r % self.k])
            r //= self.k
        body = "".join(reversed(out))
        pre, _, post = h
        if pre.startswith(">"):
            # nested host: continuation lines get the continuation prefix of '> - '
            body = body.replace("\n", "\n>   ")
        return pre + body + post


# ---------------------------------------------------------------------------- corpus based
_CORPUS = None


def corpus():
    global _CORPUS
    if _CORPUS is None:
        path = os.path.join(VERIF_DIR, "corpus", "suite_docs.jsonl")
        with open(path, encoding="utf-8") as f:
            _CORPUS = [json.loads(l)["src"] for l in f]
    return _CORPUS


N1_EDITS = [
    "del", "dup", "ind1", "ind2", "ind4", "bq", "ul", "ol", "tab", "swap", "sp2", "bs", "blank", "dedent",
]


def n1_edit(src, line_idx, edit):
    lines = src.split("\n")
    l = lines[line_idx]
    if edit == "del":
        del lines[line_idx]
    elif edit == "dup":
        lines.insert(line_idx, l)
    elif edit == "ind1":
        lines[line_idx] = " " + l
    elif edit == "ind2":
        lines[line_idx] = "  " + l
    elif edit == "ind4":
        lines[line_idx] = "    " + l
    elif edit == "bq":
        lines[line_idx] = "> " + l
    elif edit == "ul":
        lines[line_idx] = "- " + l
    elif edit == "ol":
        lines[line_idx] = "1. " + l
    elif edit == "tab":
        stripped = l.lstrip(" ")
        lines[line_idx] = ("\t" + stripped) if len(stripped) != len(l) else (l.replace(" ", "\t", 1))
    elif edit == "swap":
        if line_idx + 1 < len(lines):
            lines[line_idx], lines[line_idx + 1] = lines[line_idx + 1], l
    elif edit == "sp2":
        lines[line_idx] = l + "  "
    elif edit == "bs":
        lines[line_idx] = l + "\\"
    elif edit == "blank":
        lines.insert(line_idx, "")
    elif edit == "dedent":
        lines[line_idx] = l[1:] if l.startswith(" ") else l
    return "\n".join(lines)


class N1Universe(Universe):
    """Single-edit neighbourhood of the suite's own documents."""

    name = "N1"

    def __init__(self):
        self.index = []  # (doc_idx, line_idx) flattened
        for di, s in enumerate(corpus()):
            n = s.count("\n") + 1
            if s.endswith("\n"):
                n -= 1
            for li in range(max(n, 1)):
                self.index.append((di, li))
        self.ne = len(N1_EDITS)
        # + per document: drop/add the final newline
        self.size = len(self.index) * self.ne + len(corpus())

    def doc(self, rank):
        base = len(self.index) * self.ne
        if rank >= base:
            s = corpus()[rank - base]
            return s[:-1] if s.endswith("\n") else s + "\n"
        di, li = self.index[rank // self.ne]
        return n1_edit(corpus()[di], li, N1_EDITS[rank % self.ne])


def wrap(src, first, cont):
    lines = src.split("\n")
    trailing = src.endswith("\n")
    if trailing:
        lines = lines[:-1]
    out = []
    for i, l in enumerate(lines):
        p = first if i == 0 else cont
        out.append((p + l) if l else p.rstrip(" "))
    return "\n".join(out) + ("\n" if trailing else "")


W1_WRAPS = [("> ", "> "), ("- ", "  "), ("1. ", "   "), ("> - ", ">   "), ("- > ", "  > "), ("", "")]


class W1Universe(Universe):
    """Every corpus document as is (identity wrap) and wrapped whole in one/two containers."""

    name = "W1"

    def __init__(self):
        self.size = len(corpus()) * len(W1_WRAPS)

    def doc(self, rank):
        w = W1_WRAPS[rank % len(W1_WRAPS)]
        return wrap(corpus()[rank // len(W1_WRAPS)], *w)


class Z1Universe(Universe):
    """The suite's own documents exactly as they are (the scan / fix properties judge aspects of them the suite's
    expected outputs do not: meaning preservation, convergence, pragmas, independence, entry points)."""

    name = "Z1"

    def __init__(self):
        self.size = len(corpus())

    def doc(self, rank):
        return corpus()[rank]


# ---------------------------------------------------------------------------- lexical-form matrices (second generation of L1)
class ProductUniverse(Universe):
    """Full product of named axes; render(values...) -> document.  Axis order is part of the rank encoding (frozen)."""

    def __init__(self, name, axes, render):
        self.name = name
        self.axes = axes
        self.render = render
        self.size = 1
        for a in axes:
            self.size *= len(a)

    def doc(self, rank):
        vals = []
        for a in self.axes:
            vals.append(a[rank % len(a)])
            rank //= len(a)
        return self.render(*vals)


L2_DEST = [
    "/u", "", "<>", "<a b>", "/u%", "/u%4", "/u%41", "/u%zz", "/u%4z", "%", "%f", "/u%20x", "a%C3%A9", "/u\\)", "/u(", "/u(a)", "/u((a))", "/u(a", "/u)a",
    "&amp;", "/u&auml;", "/u&", "/u&#35;", "/u&#x2;", "\\&amp;", "/u\\\\", "/u\\", "/u#f", "#", "?q=1&r=2", '/u"q', "/u'q", "a:b", "http://a.b/c?d=e#f",
    "/u\tv", "/u v", " /u ", "\n/u", "/u*e*", "/u_e_", "/u`c`", "/u<b>", "/u[l]", "/u]", "<a\\>b>", "<a<b>", "</u", "/%41%zz%4",
]
L2_TITLE = ["", ' "t"', " 't'", " (t)", ' "t\\"q"', ' "t&amp;%41"', ' "multi\nline"', ' "t" x', ' "unclosed', '  "t"  ', ' ""', ' "t\\\nx"', " ('n')", '"t"', "\n'next line'", ' "a\n\nb"', '\n  "t\nu"', '\n   (t)']
L2_KIND = ["link", "image", "lrd", "lrd-then-text", "angle"]
L2_HOST = [("", ""), ("> ", "> "), ("- ", "  "), ("# ", None), ("", "SETEXT")]


def _l2(dest, title, kind, host):
    first, cont = host
    if kind == "link":
        body = f"a [t]({dest}{title}) b"
    elif kind == "image":
        body = f"a ![t]({dest}{title}) b"
    elif kind == "angle":
        body = f"[t](<{dest}>{title})"
    elif kind == "lrd":
        body = f"[l]: {dest}{title}\n\n[l]"
    else:
        body = f"[l]: {dest}{title}\ntext [l]"
    if cont is None:  # heading host: single line only
        body = body.replace("\n", " ")
        return first + body + "\n"
    if cont == "SETEXT":  # multi-line setext heading (a blank line inside ends it: the document is still valid input)
        return body + " *e*\n===\n"
    return wrap(body + "\n", first, cont) if first else body + "\n"


L3_OPEN = [
    "<script>", "<script>x</script>", "<pre>", "<style\n>", "<!-- c", "<!-- c -->", "<?php", "<?php ?>", "<!DOCTYPE x>", "<!x", "<![CDATA[", "<![CDATA[x]]>",
    "<div>", "<div", "</div>", "<DIV class=\"a\">", "<p>", "<table><tr>", "<h1>t</h1>", "<details>", "<a href=\"x\">", "</a>", "<custom-tag a='b' c=d e>", "<a href=\"x>",
    "<33>", "<a  b=>", "<br/>", "<i>", "<del>*x*</del>", "< div>", "<div/>", "<x-y z>",
]
L3_FOLLOW = ["", " tail", "\n", "\ntext", "\n\ntext", "\n*e*\n</div>", "\n-->", "\n?>\nafter", "\n]]>", "\n</script>\nafter", "\n    indented", "\n> q"]
L3_BEFORE = ["", "para\n", "para\n\n", "- item\n", "# h\n"]
L3_HOST = [("", ""), ("> ", "> "), ("- ", "  "), ("   ", "   "), ("1. ", "   ")]


def _l3(op, follow, before, host):
    body = before + op + follow + "\n"
    return wrap(body, *host) if host[0] else body


L4_FENCE = ["```", "````", "~~~", "~~~~~", "``", "`````"]
L4_IND = ["", " ", "   ", "    "]
L4_INFO = ["", "py", " py extra ", "a`b", "~x", "\\*x", "&amp;", "py\t", "{.c #i}", "*e*"]
L4_BODY = ["", "x", " ", "\n", "  x\n\ty", "```", "~~~", "````\nx", "> q\n- l", "    deep\n"]
L4_CLOSE = ["same", "longer", "shorter", "ind1", "ind3", "ind4", "trail", "other", "none", "same+after"]
L4_HOST = [("", ""), ("> ", "> "), ("- ", "  "), ("1. ", "   "), ("> - ", ">   ")]


def _l4(fence, ind, info, body, close, host):
    ch = fence[0]
    lines = [ind + fence + info]
    if body != "":
        lines += body.split("\n")
    c = {"same": fence, "longer": fence + ch, "shorter": fence[:-1], "ind1": " " + fence, "ind3": "   " + fence, "ind4": "    " + fence,
         "trail": fence + " x", "other": ("~" if ch == "`" else "`") * len(fence), "none": None, "same+after": fence}[close]
    if c is not None:
        lines.append(c)
    if close == "same+after":
        lines.append("after")
    body = "\n".join(lines) + "\n"
    return wrap(body, *host) if host[0] else body


L5_MARK = ["-", "*", "+", "1.", "1)", "0.", "007.", "123456789.", "1234567890.", "9.", "99)"]
L5_GAP = [" ", "  ", "   ", "    ", "     ", "\t", ""]
L5_FIRST = ["a", "", "# h", "```\nc\n```", "> q", "    code", "- n", "---", "[l]: /u", "<div>"]
L5_SECOND = ["none", "cont-1", "cont", "cont+1", "cont+4", "lazy", "blank-cont", "blank-cont+4", "blank-lazy", "same", "other", "next", "blank-same", "2blank-same", "cont-# h", "sub", "sub-1", "next-empty", "next-blanks", "next-empty-next"]
L5_HOST = [("", ""), ("> ", "> "), ("  ", "  ")]


def _l5(mark, gap, first, second, host):
    w = len(mark) + (len(gap) if gap not in ("", "\t") else 1)
    if len(gap) > 4 and gap != "\t":
        w = len(mark) + 1
    flines = first.split("\n")
    lines = [mark + gap + flines[0]] + [" " * w + x for x in flines[1:]]
    other = {"-": "*", "*": "+", "+": "-"}.get(mark, mark[:-1] + (")" if mark.endswith(".") else "."))
    nxt = mark
    if mark[0].isdigit():
        nxt = str(int(mark[:-1]) + 1) + mark[-1]
    add = {
        "none": [], "cont-1": [" " * max(w - 1, 0) + "b"], "cont": [" " * w + "b"], "cont+1": [" " * (w + 1) + "b"], "cont+4": [" " * (w + 4) + "b"],
        "lazy": ["b"], "blank-cont": ["", " " * w + "b"], "blank-cont+4": ["", " " * (w + 4) + "b"], "blank-lazy": ["", "b"], "same": [mark + " b"],
        "other": [other + " b"], "next": [nxt + " b"], "blank-same": ["", mark + " b"], "2blank-same": ["", "", mark + " b"], "cont-# h": [" " * w + "# h"],
        "sub": [" " * w + "- s"], "sub-1": [" " * max(w - 1, 0) + "- s"],
        "next-empty": [nxt], "next-blanks": [nxt + "   "], "next-empty-next": [nxt, (str(int(nxt[:-1]) + 1) + nxt[-1] if nxt[0].isdigit() else nxt) + " c"],
    }[second]
    body = "\n".join(lines + add) + "\n"
    return wrap(body, *host) if host[0] else body


# ---------------------------------------------------------------------------- extension syntax matrix (GFM extensions)
X3_PRE = ["", "a ", "(", "*", "_", "~", "x", "<", "[", '"']
X3_CORE = [
    "www.a.b", "www.a_b.c", "www.a.b_c", "www.a", "www.", "http://a.b", "https://a.b-c.d", "http://a", "http://", "ftp://a.b", "mailto:a@b.c", "xmpp:a@b.c",
    "xmpp:a@b.c/d", "a@b.c", "a+b@c.d", "a@b.c-", "a@b_c.d", "a.b@c", "@b.c", "~~s~~", "~s~", "~~~s~~~", "~~s~", "[ ]", "[x]",
]
X3_TAIL = ["", "/p", "/p?q=1&r", "/p(q)", "/p(q", "/p)", "/p.", "/p?!", "/p&amp;", "/p&amp", "/p<x", "/p*", "/p_", "/p~", "/p'", '/p"', ":80/x", "#f"]
X3_POST = ["", " x", ".", ")", "\ny", "*"]
X3_HOST = [("", ""), ("> ", "> "), ("- ", "  "), ("# ", None), ("1. ", "   ")]


def _x3(pre, core, tail, post, host):
    body = pre + core + tail + post
    first, cont = host
    if cont is None:
        return first + body.replace("\n", " ") + "\n"
    return wrap(body + "\n", first, cont) if first else body + "\n"


class AliasUniverse(Universe):
    """The documents of a base universe under another name: `X2@ext` = X2 evaluated with every GFM extension enabled
    (the name keys the known-finding rank sets, the documents are the base universe's)."""

    def __init__(self, name, base):
        self.name = name
        self.base = get(base)
        self.size = self.base.size

    def doc(self, rank):
        return self.base.doc(rank)


# ---------------------------------------------------------------------------- rule-trigger lines (scan / fix properties)
Q2_LINES = [
    "# h", "#h", "#  h", "# h #", "#h#", "# h  #", "#  h #", " # h", "# h.", "## h", "### h", "h\n===", "- a", "* a", "+ a", "-  a", " - a", "  - a", "1. a", "2. a",
    "1.  a", "> q", ">  q", ">q", "```\nc\n```", "```py\n$ ls\n```", "~~~\nc\n~~~", "    code", "---", "***", "text", "text  ", "text\t", "a\tb", "<b>x</b>", "<div>",
    "http://a.b", "<http://a.b>", "**bold**", "** bold **", "*e*", "` c`", "`c `", "[ a](/u)", "[a]()", "[a](#)", "![](/u)", "![a](/u)", "(a)[/u]", "[a]: /u",
    "this paragraph", "", "word " * 17 + "end", "- [ a ](/u)  ",
]


# ---------------------------------------------------------------------------- inline context x inline rule trigger, same paragraph
P3_A = [
    "plain words", "a &amp;&amp;&amp; b", "a &copy; &#35; b", "a \\* \\_ \\[ b", "a\tb\tc", "a `code` b", "a ``co`de`` b", "a *em* **st** b", "a _em_ b",
    "a [l](/u \"t\") b", "a ![i](/u) b", "a <b>raw</b> c", "a <http://x.y> b", "hard break  ", "hard break\\", "café über 艨", "a [ref] b",
    "a " + "long " * 16 + "b", "a * b", "a ` b", "a [ b", "a ] b", "&amp;", "\\",
]
P3_B = [
    "c * d * e", "x ** y** z", "x __y __ z", "an ` invalid` span", "an `x ` y", "see http://bare.url here", "see https://a.b/c?d=e. ok", "[ a](/u) x", "[a ](/u) x",
    "[a]() x", "[a](#) x", "![](/u) x", "![ ](/u) x", "this paragraph here", "<b>raw</b> x", "text  ", "a\tb", "(a)[/u] x", "*all emphasised*", "word " * 17 + "end",
    "# not heading", "#nospace", "x [l](/u) y `c` *e*",
]
P3_SEP = ["\n", " ", "\n\n"]
P3_HOSTS = [("", ""), ("> ", "> "), ("- ", "  "), ("1. ", "   "), ("> ", "")]  # last: B as a lazy continuation line


def _p3(host, sep, b, a):
    body = a + sep + b + "\nlast line\n"
    first, cont = host
    if not first:
        return body
    if cont == "":
        lines = body.split("\n")
        return "\n".join([first + lines[0]] + lines[1:])
    return wrap(body, first, cont)


# ---------------------------------------------------------------------------- ATX heading forms
H5_HASH = ["#", "##", "######"]
H5_LEAD = ["", " ", "   ", "    "]
H5_GAP = [" ", "  ", "\t", ""]
H5_TEXT = ["h", "h#", "h \\#", "h #x", "*e* `c`", "", "h  i", "C#"]
H5_CLOSE = ["", " #", " ##", "#", " # ", " #\t", "  ##  ", " # #", " \\#"]
H5_TRAIL = ["", " ", "   ", "\t"]
H5_HOST = [("", ""), ("> ", "> "), ("- ", "  ")]


def _h5(host, trail, close, text, gap, lead, hashes):
    body = lead + hashes + gap + text + close + trail + "\nnext\n"
    return wrap(body, *host) if host[0] else body


# ---------------------------------------------------------------------------- several fixable inline items in one text
M3_UNITS = ["* a *", "*a*", "** a **", "_ a _", "` a `", "`a`", "[ a ](/u)", "a", "&amp;", "\\*", "this", "http://a.b"]


class M3Universe(Universe):
    """2-4 inline units, each a construct an inline rule looks at or fixes (spaced emphasis / code span / link label, proper
    name, bare URL) or something that shifts offsets (entity, escape), joined by ` x ` in one paragraph or ATX heading:
    several reports and several fixes against the same text token."""

    name = "M3"

    def __init__(self):
        self.k = len(M3_UNITS)
        self.blocks = []
        start = 0
        for n in (2, 3, 4):
            self.blocks.append((start, n))
            start += self.k**n * 2
        self.size = start

    def doc(self, rank):
        for start, n in reversed(self.blocks):
            if rank >= start:
                r = rank - start
                break
        host = r % 2
        r //= 2
        units = []
        for _ in range(n):
            units.append(M3_UNITS[r % self.k])
            r //= self.k
        body = " x ".join(reversed(units))
        return ("# t " + body + "\n") if host else ("t " + body + " end\n")


# ---------------------------------------------------------------------------- list items with independent indentation
L6_MARK = ["-", "*", "1.", "2."]
L6_IND = ["", " ", "  ", "   "]
L6_TAIL = ["", "cont", "para", "sub", "para-lazy"]


def _l6_item(ind, mark, text, tail):
    w = len(ind) + len(mark) + 1
    lines = [ind + mark + " " + text]
    if tail == "cont":
        lines.append(" " * w + text + "2")
    elif tail == "para":
        lines += ["", " " * w + text + "2"]
    elif tail == "sub":
        lines.append(" " * w + "- s")
    elif tail == "para-lazy":
        lines += ["", " " * max(w - 1, 0) + text + "2"]
    return lines


def _l6(m1, i1, t1, m2, i2, t2, host):
    body = "\n".join(_l6_item(i1, m1, "a", t1) + _l6_item(i2, m2, "b", t2)) + "\n"
    return wrap(body, *host) if host[0] else body


# ---------------------------------------------------------------------------- runs of blank lines in and around containers
G2_HOST = [("", ""), ("> ", "> "), ("- ", "  "), ("1. ", "   "), ("> - ", ">   ")]
G2_COUNT = [1, 2, 3, 4]
G2_BLANK = ["", "prefix", "prefix-sp", "spaces"]
G2_BEFORE = ["a", "# h", "```\nc\n```", "- i", "    code"]
G2_AFTER = ["b", "# g", "```\nd\n```", "", "- j", "    code"]


def _g2(host, count, blank, before, after):
    first, cont = host
    lines = before.split("\n")
    lines = [(first if i == 0 else cont) + l for i, l in enumerate(lines)]
    stripped = cont.rstrip(" ")
    for _ in range(count):
        lines.append({"": "", "prefix": stripped, "prefix-sp": stripped + " " if stripped else " ", "spaces": "   "}[blank])
    if after:
        lines += [cont + l for l in after.split("\n")]
    return "\n".join(lines) + "\n"


# ---------------------------------------------------------------------------- how a heading ends
H6_TEXT = ["a", "a.", "a:", "a?", "a!"]
H6_TAIL = ["", "`c`", "<b>", "![i](/u)", "<http://a.b>", "*e*", "[l](/u)", "&amp;", "\\.", " `c`", "*e.*"]
H6_FORM = ["# {}", "## {} ##", "{}\n==="]
H6_HOST = [("", ""), ("> ", "> "), ("- ", "  ")]


def _h6(host, form, tail, text):
    body = form.format(text + tail) + "\n\nnext\n"
    return wrap(body, *host) if host[0] else body


# ---------------------------------------------------------------------------- where a bare URL starts and stops
U2_SCHEME = ["http", "https", "ftp", "ftps", "HTTP"]
U2_AFTER = ["://", "://a", ":/", ":", "://`c`", "://*e*", "://<b>", "://\nb", "://a.b ", "://[l](/u)", "://a.b/c?d=e&f#g", "://a.b) ", "://a.b."]
U2_BEFORE = ["", "a ", "(", "a", "\"", "[x](/u) "]
U2_HOST = [("", ""), ("> ", "> "), ("- ", "  "), ("# ", None)]


def _u2(host, before, after, scheme):
    body = before + scheme + after
    first, cont = host
    if cont is None:
        return first + body.replace("\n", " ") + "\n"
    return wrap(body + "\n", first, cont) if first else body + "\n"


# ---------------------------------------------------------------------------- lists of 2-3 items with structured item bodies
L7_ITEM = [["a"], ["a", "a2"], ["a", "", "a2"], ["a", "- n"], ["a", "1. n"], ["a `", "b c", "` d"], ["```", "c", "```"], ["> q"], ["a", "", "a2", "", "    a3"]]
L7_KIND = ["ul", "ul-wide-second", "ul-wide-all", "ol-123", "ol-111", "ol-999", "ol-9-10-11", "ol-012", "ol-8-9-10-wide"]


def _l7_markers(kind, n):
    if kind == "ul":
        return ["- "] * n
    if kind == "ul-wide-second":
        return ["- "] + ["-    "] * (n - 1)
    if kind == "ul-wide-all":
        return ["-   "] * n
    seq = {"ol-123": [1, 2, 3], "ol-111": [1, 1, 1], "ol-999": [9, 9, 9], "ol-9-10-11": [9, 10, 11], "ol-012": [0, 1, 2], "ol-8-9-10-wide": [8, 9, 10]}[kind]
    gap = "  " if kind.endswith("wide") else " "
    return [f"{x}.{gap}" for x in seq[:n]]


class L7Universe(Universe):
    name = "L7"

    def __init__(self):
        self.ni, self.nk = len(L7_ITEM), len(L7_KIND)
        self.n2 = self.nk * self.ni**2 * 2
        self.size = self.n2 + self.nk * self.ni**3 * 2

    def doc(self, rank):
        n = 2
        if rank >= self.n2:
            rank -= self.n2
            n = 3
        host = rank % 2
        rank //= 2
        kind = L7_KIND[rank % self.nk]
        rank //= self.nk
        items = []
        for _ in range(n):
            items.append(L7_ITEM[rank % self.ni])
            rank //= self.ni
        marks = _l7_markers(kind, n)
        lines = []
        for m, it in zip(marks, reversed(items)):
            for i, l in enumerate(it):
                lines.append(((m if i == 0 else " " * len(m)) + l) if l else "")
        body = "\n".join(lines) + "\n"
        return wrap(body, "> ", "> ") if host else body


# ---------------------------------------------------------------------------- character-level neighbourhood
E1_INSERTS = [" ", "\n", "\t", ">", "-", "*", "_", "`", "[", "]", "\\", "#", "<", "&", "1."]


class E1Universe(Universe):
    """Single-character edit neighbourhood of the suite's own documents: at every character position, delete the
    character, or insert one Markdown-significant character before it (and at the end of the document)."""

    name = "E1"

    def __init__(self):
        import bisect

        self._bisect = bisect.bisect_right
        self.k = len(E1_INSERTS)
        self.cum = [0]
        for s in corpus():
            n = len(s)
            self.cum.append(self.cum[-1] + n + (n + 1) * self.k)
        self.size = self.cum[-1]

    def doc(self, rank):
        di = self._bisect(self.cum, rank) - 1
        s = corpus()[di]
        r = rank - self.cum[di]
        n = len(s)
        if r < n:
            return s[:r] + s[r + 1:]
        r -= n
        pos, which = divmod(r, self.k)
        return s[:pos] + E1_INSERTS[which] + s[pos:]


# ---------------------------------------------------------------------------- structured
S_CONTAINERS = {
    "q": ("> ", "> "),
    "u": ("- ", "  "),
    "o": ("1. ", "   "),
}
S_LEAVES = [
    ["para"], ["line one", "line two"], ["# atx"], ["setext", "---"], ["***"], ["```", "```"],
    ["```py", "x = 1", "", "y", "```"], ["    indented"], ["<div>", "x", "</div>"], ["[l]: /u 't'"],
    ["*e* [l] `c` \\", "<b> [a](/u) &amp;"],
]
S_TRAILERS = ["none", "item2", "sibling_outer", "after", "lazy", "blank_then_para"]


def _render_nested(nest, blocks, trailer, loose):
    """nest: string over q/u/o (outer->inner); blocks: list of leaf line-lists."""
    firsts = "".join(S_CONTAINERS[c][0] for c in nest)
    conts = "".join(S_CONTAINERS[c][1] for c in nest)
    lines = []
    first_line = True
    for bi, blk in enumerate(blocks):
        if bi > 0 and loose:
            lines.append(conts.rstrip(" "))
        for l in blk:
            p = firsts if first_line else conts
            first_line = False
            lines.append((p + l) if l else p.rstrip(" "))
    if trailer == "item2" and nest:
        # a second item of the innermost list (or second quote paragraph)
        inner = nest[-1]
        outer_conts = "".join(S_CONTAINERS[c][1] for c in nest[:-1])
        if loose:
            lines.append(outer_conts.rstrip(" "))
        marker = {"q": "> ", "u": "- ", "o": "2. "}[inner]
        lines.append(outer_conts + marker + "second")
    elif trailer == "sibling_outer" and len(nest) >= 2:
        outer_conts = "".join(S_CONTAINERS[c][1] for c in nest[:-1])
        lines.append(outer_conts.rstrip(" "))
        lines.append(outer_conts + "sibling")
    elif trailer == "after":
        lines.append("")
        lines.append("after")
    elif trailer == "lazy":
        lines.append("lazy")
    elif trailer == "blank_then_para" and nest:
        lines.append(conts.rstrip(" "))
        lines.append(conts + "more")
    return "\n".join(lines) + "\n"


class StructuredUniverse(Universe):
    def __init__(self, name, nests, two_blocks):
        self.name = name
        self.cases = []
        nl = len(S_LEAVES)
        for nest in nests:
            blocksets = [[i] for i in range(nl)]
            if two_blocks:
                blocksets += [[i, j] for i in range(nl) for j in range(nl)]
            for bs in blocksets:
                for tr in S_TRAILERS:
                    if tr in ("item2", "blank_then_para") and not nest:
                        continue
                    if tr == "sibling_outer" and len(nest) < 2:
                        continue
                    for loose in ((False, True) if len(bs) > 1 else (False,)):
                        self.cases.append((nest, bs, tr, loose))
        self.size = len(self.cases)

    def doc(self, rank):
        nest, bs, tr, loose = self.cases[rank]
        return _render_nested(nest, [S_LEAVES[i] for i in bs], tr, loose)


U1_CHARS = ["a", "þ", "艨", "艩", " ", "é", "\U0001f600", "é", "\a", "\b", "\x02", "\x03", "\x05", "\x06", "\x07", " ", "ß", "İ"]
U1_HOSTS = [("", "\n"), ("# ", "\n"), ("> ", "\n"), ("- ", "\n"), ("*", "*\n"), ("[", "](/u)\n"), ("`", "`\n"), ("    ", "\n"), ("```\n", "\n```\n"), ("[l]: /", "\n"), ("x \\", " y\n"), ("&amp;", "\n")]


class U1Universe(Universe):
    name = "U1"

    def __init__(self):
        self.k = len(U1_CHARS)
        self.size = (self.k + self.k**2 + self.k**3) * len(U1_HOSTS)

    def doc(self, rank):
        h = U1_HOSTS[rank % len(U1_HOSTS)]
        r = rank // len(U1_HOSTS)
        k = self.k
        if r < k:
            n = 1
        elif r < k + k * k:
            n, r = 2, r - k
        else:
            n, r = 3, r - k - k * k
        out = []
        for _ in range(n):
            out.append(U1_CHARS[r % k])
            r //= k
        return h[0] + "".join(reversed(out)) + h[1]


# ---------------------------------------------------------------------------- multi-line inline
M5_OPEN = {"html": " <b", "htmlI": " <b", "ref": " [b][c", "code": " `s", "title": " [l](/u 'ti"}
M5_CLOSE = {"html": "e> ", "htmlI": "   e> ", "ref": "d] ", "code": "t` ", "title": "tle') "}
M5_B = ["none", "html", "htmlI", "ref", "code", "title", "cont"]
M5_PRE = ["> ", ">", ""]


class M5Universe(Universe):
    """5-line paragraphs in a block quote whose inline elements cross line boundaries (raw HTML, full reference
    link labels, code spans, link titles; 'cont' = the element stays open over a further line), every line with its
    own quote prefix ('> ', '>' or none = lazy), last line ending in emphasis; needed reference definitions follow."""

    name = "M5"

    def __init__(self):
        self.nb = len(M5_B) ** 4
        self.np = len(M5_PRE) ** 4
        self.size = self.nb * self.np

    def doc(self, rank):
        pr, br = rank % self.np, rank // self.np
        pres = ["> "]
        for _ in range(4):
            pres.append(M5_PRE[pr % 3])
            pr //= 3
        bs = []
        for _ in range(4):
            bs.append(M5_B[br % len(M5_B)])
            br //= len(M5_B)
        lines = []
        open_kind = None
        label = None
        labels = []
        for i in range(5):
            text = ""
            if open_kind is not None:
                if i < 4 and bs[i] == "cont":
                    text = f"m{i}"
                    if open_kind == "ref":
                        label.append(f"m{i}")
                    lines.append(pres[i] + text)
                    continue
                text += M5_CLOSE[open_kind]
                if open_kind == "ref":
                    label.append("d")
                    labels.append(" ".join(label))
                open_kind = None
            text += f"w{i}"
            if i < 4:
                nb = bs[i] if bs[i] != "cont" else "none"
                # a 'cont' directly after nothing open behaves like 'none'; look ahead: cont applies to the NEXT boundary
                if nb != "none":
                    text += M5_OPEN[nb]
                    open_kind = nb
                    if nb == "ref":
                        label = ["c"]
            else:
                text += " *g*"
            lines.append(pres[i] + text)
        out = "\n".join(lines) + "\n"
        for lb in dict.fromkeys(labels):
            out += f"\n[{lb}]: /u\n"
        return out


# ---------------------------------------------------------------------------- specification limits
def _limit_docs():
    d = []
    for n in (1, 2, 3, 31, 32, 33):
        for tail in ("a", "1", "+", ".", "-"):
            sch = ("a" * (n - 1) + tail) if n > 1 else "a"
            d.append(f"<{sch}:x>")
            d.append(f"see <{sch}:x y> and <{sch}:/p?q=1>")
    for n in (1, 62, 63, 64):
        d.append("<a@" + "b" * n + ".c>")
        d.append("<" + "a" * n + "@b.c>")
    for n in range(1, 9):
        d.append("#" * n + " h")
        d.append("#" * n + "h")
        d.append("# h " + "#" * n)
        d.append("# h #" + "#" * n + " x")
    for n in (1, 8, 9, 10, 11):
        for mk in (".", ")"):
            d.append("1" * n + mk + " a")
            d.append("0" * n + mk + " a")
            d.append("p\n" + "1" * n + mk + " a")
    for ind in range(0, 6):
        for opener in ("```", "~~~", "# h", "---", "- a", "1. a", "> q", "<div>", "[l]: /u", "===", "    c", "***"):
            d.append(" " * ind + opener)
            d.append("p\n" + " " * ind + opener)
            d.append("- a\n" + " " * ind + opener)
    for n in (2, 3, 4, 5):
        for ch in "`~":
            d.append(ch * n + "\nc\n" + ch * n)
            d.append(ch * 4 + "\nc\n" + ch * n)
            d.append(ch * n + " i" + ch + "\nc")
            d.append(ch * n + "py\n" + ch * (n + 1) + " x\n" + ch * n)
    for ch in "-_*":
        for n in (2, 3, 4):
            d.append(ch * n)
            d.append((ch + " ") * n)
            d.append((ch + "\t") * n)
            d.append(ch * n + " a")
    for n in range(1, 10):
        d.append("&#" + "1" * n + ";")
        d.append("&#x" + "a" * n + ";")
    for e in ("&amp;", "&AMP;", "&amp", "&nosuch;", "&#0;", "&#x0;", "&#1114112;", "&#xD800;", "&copy;", "&ThickSpace;", "&ngE;"):
        d.append(e)
        d.append("[a](/u" + e + ' "' + e + '")')
    for a in range(1, 4):
        for b in range(1, 4):
            d.append("`" * a + "c" + "`" * b)
            d.append("`" * a + " c " + "`" * b + " `x`")
    for a in range(1, 5):
        for b in range(1, 5):
            d.append("*" * a + "e" + "*" * b)
            d.append("_" * a + "e" + "_" * b)
            d.append("*" * a + "_e" + "*" * b + "_")
    for n in (1, 2, 3):
        d.append("[a](" + "(" * n + "x" + ")" * n + ")")
        d.append("[a](" + "(" * n + "x" + ")" * (n - 1) + ")")
        d.append("[a](<" + "(" * n + "x>)")
    for t in ('"t"', "'t'", "(t)", '"t', "'t\"", "(t(u))", '"a\\"b"'):
        d.append("[a](/u " + t + ")")
        d.append("[l]: /u " + t)
        d.append("[l]: /u\n  " + t + "\n\n[l]")
    for n in (998, 999, 1000):
        d.append("[" + "a" * n + "]: /u\n\n[" + "a" * n + "]")
    for t in ("<a>", "<a/>", "<a b>", "<a b=c>", "<a b='c'>", '<a b="c">', "<a b=>", "<a b='>", "<a\nb>", "</a>", "</a b>", "<1a>", "<a.b>", "<a:b>", "<?p?>", "<!D x>", "<![CDATA[x]]>", "<!--c-->"):
        d.append("x " + t + " y")
        d.append(t)
    # HTML block start conditions 6 and 7 at their lexical borders: what may follow the tag name
    # (appended after the original entries so that earlier ranks keep their meaning)
    tail = []
    for nm in ("a", "div", "pre", "h1", "x-y", "DIV"):
        for end in ("/ x>", "/ >", "/", "/>", " />", "\t>", " b/>", "/x>", ">x", " b=c d>", "\n>"):
            tail.append("<" + nm + end + "\n*foo*")
        tail.append("</" + nm + " x>\n*foo*")
        tail.append("</" + nm + "\t>\n*foo*")
    for c in range(0, 9):
        d.append(" " * c + "\ta")
        d.append("-" + " " * c + "\ta")
        d.append(">" + " " * c + "\ta")
    return d + tail


_LIMITS = None
L1_HOSTS = [("", ""), ("> ", "> "), ("- ", "  "), ("1. ", "   ")]


class L1Universe(Universe):
    """Boundary values of the numeric / lexical limits the specification states (scheme length 2-32, 1-6 #, 9-digit
    list numbers, 0-3 vs 4 spaces of indentation, fence lengths, entity digit counts, delimiter run lengths, nested
    parentheses, 999-character labels, tab stops), each at top level and inside a quote / bullet / ordered item."""

    name = "L1"

    def __init__(self):
        global _LIMITS
        if _LIMITS is None:
            _LIMITS = list(dict.fromkeys(x.replace("\\n", "\n").replace("\\t", "\t") for x in _limit_docs()))
        self.docs = _LIMITS
        self.size = len(self.docs) * len(L1_HOSTS) * 2

    def doc(self, rank):
        nl = rank % 2
        rank //= 2
        first, cont = L1_HOSTS[rank % len(L1_HOSTS)]
        body = self.docs[rank // len(L1_HOSTS)]
        lines = body.split("\n")
        out = "\n".join(((first if i == 0 else cont) + l) if l else (first if i == 0 else cont).rstrip(" ") for i, l in enumerate(lines))
        return out + ("\n" if nl == 0 else "")


# ---------------------------------------------------------------------------- pairwise feature combinations
P2_A = [
    "text", "text [link](/url\n    ) more", "text [link](/url\n\"ti\ntle\") more", "text ![img](/url\n) more", "text `code\nspan` more",
    "text `\ncode\n` more", "text <b\n  c> more", "text [a][b\nc] more", "text *em\nph* more", "text  \nbreak", "text\\\nbreak", "# heading",
    "Setext\nheading\n===", "```\ncode\n```", "```py\ncode", "    indented", "<div>\nhtml", "<!-- c\n-->", "[l]: /u", "[l]:\n/u\n'title'",
    "- item", "- item\n  cont", "-   wide", "1. one\n1. two", "10. ten", "> quote", "> quote\nlazy", "---", "", "\ttab", "text   ",
    "<!-- pyml disable-next-line md013-->", "* other", "- run `\n  make\n  ` first\n\n  then", "#### deep", "~~~\ncode\n~~~",
]
P2_B = [
    "#notheading", "    #indented", "# h", "#  h2", "## h ##", "#### h4", "text  ", "text", "a\tb", "*e* [x](/u) `c`", "[e]()", "![](/u)", "- item", "-  two",
    "-   next\n    cont", "* star", "1. one", "3. three", "> q", ">  q2", "```", "~~~", "    code", "---", "***", "===", "<div>", "[l]: /u", "[l] [b c]", "",
    "a long line that goes on and on and on until it is well past the eighty character limit of md013", "http://bare.url", "<b>", "&amp; \\*", "# h.", "Title\n-----",
]
P2_SEP = ["\n", "\n\n"]
P2_HOSTS = [("", ""), ("> ", "> "), ("- ", "  "), ("   > ", "   > ", ">  ")]  # 4th: quote whose B line has another prefix width


class P2Universe(Universe):
    """Pairwise feature combinations: a context-setting construct A (often a multi-line inline element or an open /
    closed block) followed, directly or after a blank line, by an observing line B (something a rule or the position
    arithmetic looks at), at top level and inside a quote / list item; a definition for `[b c]` is appended."""

    name = "P2"

    def __init__(self):
        self.size = len(P2_A) * len(P2_B) * len(P2_SEP) * len(P2_HOSTS)

    def doc(self, rank):
        h = P2_HOSTS[rank % len(P2_HOSTS)]
        rank //= len(P2_HOSTS)
        sep = P2_SEP[rank % len(P2_SEP)]
        rank //= len(P2_SEP)
        b = P2_B[rank % len(P2_B)]
        a = P2_A[rank // len(P2_B)]
        body = a + sep + b + "\n"
        if len(h) == 3:
            n_b = b.count("\n") + 1
            lines = body[:-1].split("\n")
            out = "\n".join(((h[2] if i >= len(lines) - n_b else h[0]) + l) if l else ">" for i, l in enumerate(lines)) + "\n"
        else:
            out = wrap(body, *h) if h[0] else body
        return out + "\n[b c]: /u\n"


# ---------------------------------------------------------------------------- several line-level features on one line
R2_PRE = ["", "\t", "# ", "- ", "> ", "    "]
R2_MID = ["a", "a\tb", "word " * 17 + "end", "*e*"]
R2_END = ["", " ", "  ", "   ", "\t", " \\"]
R3_BODIES = ["a", "a   ", "b  ", "c\td", "===", "---", "# h", "- x", ""]
K7_FRAGS = ["`", "``", " ", "a"]
# repetition: the same or alternating blocks three or four times in a row, separated by blank lines
T4_BLOCKS = ["> q", "- a", "1. a", "# h", "text", "```\nc\n```", "    code", "---", "<div>\nx\n</div>", "[l]: /u", "* b", "> - n"]


class T4Universe(Universe):
    name = "T4"

    def __init__(self):
        self.k = len(T4_BLOCKS)
        self.size = self.k**3 + self.k**4

    def doc(self, rank):
        n = 3
        if rank >= self.k**3:
            rank -= self.k**3
            n = 4
        out = []
        for _ in range(n):
            out.append(T4_BLOCKS[rank % self.k])
            rank //= self.k
        return "\n\n".join(reversed(out)) + "\n"



_pairs = [a + b for a in "quo" for b in "quo"]
_triples = [a + b + c for a in "quo" for b in "quo" for c in "quo"]

_REGISTRY = {}


def _build():
    return {
        "B2": lambda: LinesUniverse("B2", B2_PREFIXES, B2_BODIES, 2),
        "B3": lambda: LinesUniverse("B3", B3_PREFIXES, B3_BODIES, 3, newline_variants=False, min_lines=3),
        "B4": lambda: LinesUniverse("B4", B4_PREFIXES, B4_BODIES, 4, newline_variants=False, min_lines=4),
        "I4": lambda: InlineUniverse("I4", I4_FRAGS, 4, I4_HOSTS[:4]),
        "I6": lambda: InlineUniverse("I6", I6_FRAGS, 6, [I4_HOSTS[0]]),
        "N1": N1Universe,
        "W1": W1Universe,
        "S2": lambda: StructuredUniverse("S2", ["", "q", "u", "o"] + _pairs, True),
        "S3": lambda: StructuredUniverse("S3", _triples, False),
        "U1": U1Universe,
        "X2": lambda: LinesUniverse("X2", [""], X2_LINES, 3, newline_variants=False),
        "H4": lambda: LinesUniverse("H4", [""], H4_LINES, 4, newline_variants=False, min_lines=2),
        "M5": M5Universe,
        "P2": P2Universe,
        "R3": lambda: LinesUniverse("R3", ["", "> "], R3_BODIES, 3, newline_variants=True, min_lines=3),
        "T4": T4Universe,
        "K7": lambda: InlineUniverse("K7", K7_FRAGS, 7, [I4_HOSTS[0]]),
        "R2": lambda: LinesUniverse("R2", R2_PRE, [m + e for m in R2_MID for e in R2_END], 2),
        "L1": L1Universe,
        "L2": lambda: ProductUniverse("L2", [L2_HOST, L2_KIND, L2_TITLE, L2_DEST], lambda h, k, t, d: _l2(d, t, k, h)),
        "L3": lambda: ProductUniverse("L3", [L3_HOST, L3_BEFORE, L3_FOLLOW, L3_OPEN], lambda h, b, f, o: _l3(o, f, b, h)),
        "L4": lambda: ProductUniverse("L4", [L4_HOST, L4_CLOSE, L4_BODY, L4_INFO, L4_IND, L4_FENCE], lambda h, c, b, i, n, f: _l4(f, n, i, b, c, h)),
        "L5": lambda: ProductUniverse("L5", [L5_HOST, L5_SECOND, L5_FIRST, L5_GAP, L5_MARK], lambda h, s2, f, g, m: _l5(m, g, f, s2, h)),
        "X3": lambda: ProductUniverse("X3", [X3_HOST, X3_POST, X3_TAIL, X3_CORE, X3_PRE], lambda h, po, t, c, pr: _x3(pr, c, t, po, h)),
        "Q2": lambda: LinesUniverse("Q2", [""], Q2_LINES, 2, newline_variants=False),
        "P3": lambda: ProductUniverse("P3", [P3_HOSTS, P3_SEP, P3_B, P3_A], _p3),
        "H5": lambda: ProductUniverse("H5", [H5_HOST, H5_TRAIL, H5_CLOSE, H5_TEXT, H5_GAP, H5_LEAD, H5_HASH], _h5),
        "M3": M3Universe,
        "L6": lambda: ProductUniverse("L6", [[("", ""), ("> ", "> ")], L6_TAIL, L6_IND, L6_MARK, L6_TAIL, L6_IND, L6_MARK], lambda h, t2, i2, m2, t1, i1, m1: _l6(m1, i1, t1, m2, i2, t2, h)),
        "G2": lambda: ProductUniverse("G2", [G2_HOST, G2_COUNT, G2_BLANK, G2_BEFORE, G2_AFTER], _g2),
        "H6": lambda: ProductUniverse("H6", [H6_HOST, H6_FORM, H6_TAIL, H6_TEXT], _h6),
        "U2": lambda: ProductUniverse("U2", [U2_HOST, U2_BEFORE, U2_AFTER, U2_SCHEME], _u2),
        "L7": L7Universe,
        "E1": E1Universe,
        "Z1": Z1Universe,
    }


ALL_EXTENSIONS = ("front-matter", "markdown-strikethrough", "markdown-task-list-items", "markdown-extended-autolinks", "markdown-disallow-raw-html")


def extensions_for(name):
    """Universe names ending in @ext are evaluated with every GFM extension enabled."""
    return ALL_EXTENSIONS if name.endswith("@ext") else ()


def get(name):
    if name not in _REGISTRY:
        if name.endswith("@ext"):
            _REGISTRY[name] = AliasUniverse(name, name[: -len("@ext")])
        else:
            _REGISTRY[name] = _build()[name]()
    return _REGISTRY[name]


ALL = ["B2", "B3", "B4", "I4", "I6", "N1", "W1", "S2", "S3", "U1", "X2", "H4", "M5", "L1", "P2", "R2", "R3", "K7", "T4", "E1", "L2", "L3", "L4", "L5", "P3", "H5", "M3", "L6", "G2", "H6", "L7"]

if __name__ == "__main__":
    tot = 0
    for n in ALL:
        u = get(n)
        tot += u.size
        print(n, u.size, u.checksum(), repr(u.doc(u.size // 3))[:80])
    print("total", tot)
